//@@ UNIT GENDEF
// Unit GENDEF — src/check/constrain/generate/definition.rs::id_from_var: the constraint generator for variable
// definitions (C06 "as initialiser of a T variable"; one of the paths that reach the nullable rule).  The
// constraint builder is external with a GHOST LOG of the (parent, child) pairs added; loops over HashMap results
// and the itertools tuple loop are havocked (they may only add constraints).
#![allow(unused_imports, dead_code, unused_variables, non_snake_case, unused_mut)]
use vstd::prelude::*;
use std::convert::TryFrom;

//@@ INCLUDE pos_types.inc.rs
//@@ TYPE src/parse/ast/mod.rs | struct | AST
//@@ TYPE src/parse/ast/mod.rs | type | OptAST
//@@ TYPE src/parse/ast/mod.rs | enum | Node
//@@ TYPE src/parse/ast/node_op.rs | enum | NodeOp
//@@ TYPE src/check/constrain/constraint/expected.rs | enum | Expect
use crate::Expect::*;
use crate::Node::Id;

// opaque stand-ins
#[derive(Clone, Debug, PartialEq, Eq, Hash)]
pub struct StringName { _x: u8 }
#[derive(Clone, Debug, PartialEq, Eq, Hash)]
pub struct Name { _x: u8 }
#[derive(Clone, Debug, PartialEq, Eq, Hash)]
pub struct Expected { _x: u8 }
pub struct Context { _x: u8 }
pub struct TypeErr { _x: u8 }
pub struct Identifier { _x: u8 }
pub struct Class { _x: u8 }
#[derive(Clone, Debug, Default)]
pub struct VarMapping { _x: u8 }
pub struct BuilderRest { _x: u8 }
/// the public field is real; everything private (and the ghost log, a function of it) is one opaque field
pub struct ConstrBuilder { pub verif_rest: BuilderRest, pub var_mapping: VarMapping }
//@@ TYPE src/check/constrain/generate/env.rs | struct | Environment | retype=raises_caught:OpaqueRaises | retype=unassigned:OpaqueUnassigned | retype=vars:OpaqueVars
/// stand-ins for the HashSet / HashMap fields of Environment (outside the subset)
#[derive(Clone, Debug, Default)] pub struct OpaqueRaises { _x: u8 }
#[derive(Clone, Debug, Default)] pub struct OpaqueUnassigned { _x: u8 }
#[derive(Clone, Debug, Default)] pub struct OpaqueVars { _x: u8 }
pub type TypeResult<T> = Result<T, Vec<TypeErr>>;
pub type Constrained<T = Environment> = Result<T, Vec<TypeErr>>;

verus! {

#[verifier::external_type_specification] pub struct ExPosition(Position);
#[verifier::external_type_specification] pub struct ExCaretPos(CaretPos);
#[verifier::external_type_specification] pub struct ExAST(AST);
#[verifier::external_type_specification] pub struct ExNode(Node);
#[verifier::external_type_specification] pub struct ExNodeOp(NodeOp);
#[verifier::external_type_specification] pub struct ExExpect(Expect);
#[verifier::external_type_specification] #[verifier::external_body] pub struct ExStringName(StringName);
#[verifier::external_type_specification] #[verifier::external_body] pub struct ExName(Name);
#[verifier::external_type_specification] #[verifier::external_body] pub struct ExExpected(Expected);
#[verifier::external_type_specification] #[verifier::external_body] pub struct ExContext(Context);
#[verifier::external_type_specification] #[verifier::external_body] pub struct ExTypeErr(TypeErr);
#[verifier::external_type_specification] #[verifier::external_body] pub struct ExIdentifier(Identifier);
#[verifier::external_type_specification] #[verifier::external_body] pub struct ExVarMapping(VarMapping);
#[verifier::external_type_specification] #[verifier::external_body] pub struct ExBuilderRest(BuilderRest);
#[verifier::external_type_specification] pub struct ExConstrBuilder(ConstrBuilder);
#[verifier::external_type_specification] pub struct ExEnvironment(Environment);
#[verifier::external_type_specification] #[verifier::external_body] pub struct ExOpaqueRaises(OpaqueRaises);
#[verifier::external_type_specification] #[verifier::external_body] pub struct ExOpaqueUnassigned(OpaqueUnassigned);
#[verifier::external_type_specification] #[verifier::external_body] pub struct ExOpaqueVars(OpaqueVars);
#[verifier::external_type_specification] #[verifier::external_body] pub struct ExClass(Class);

pub assume_specification[<Expected as Clone>::clone](t: &Expected) -> (r: Expected) ensures r == *t;
pub assume_specification[<Name as Clone>::clone](t: &Name) -> (r: Name) ensures r == *t;
pub assume_specification[<Environment as Clone>::clone](t: &Environment) -> (r: Environment) ensures r == *t;
#[verifier::external_body] pub fn verif_opaque_string() -> String { unimplemented!() }
#[verifier::external_body] pub fn verif_havoc<T>() -> T { unimplemented!() }

// ---- /repo functions with ASSUMED contracts in this unit (bodies pinned) --------------------------------------------------------
//@@ ASSUME src/check/constrain/constraint/builder.rs | impl ConstrBuilder | add
//@@ ASSUME src/check/constrain/constraint/builder.rs | impl ConstrBuilder | add_constr_map
//@@ ASSUME src/check/constrain/constraint/builder.rs | impl ConstrBuilder | temp_name
//@@ ASSUME src/check/constrain/constraint/builder.rs | impl ConstrBuilder | insert_var
//@@ ASSUME src/check/ident.rs | impl Identifier | fields
//@@ ASSUME src/check/name/mod.rs | free | match_name
// ---- the constraint builder with its ghost log ---------------------------------------------------------------------
/// the (parent, child) pairs added so far, in order: `parent >= child` must hold for the program to be accepted
pub uninterp spec fn log(b: ConstrBuilder) -> Seq<(Expected, Expected)>;
pub open spec fn grows(a: ConstrBuilder, b: ConstrBuilder) -> bool {
    log(a).len() <= log(b).len() && forall|i: int| 0 <= i < log(a).len() ==> #[trigger] log(b)[i] == log(a)[i]
}
pub open spec fn has(b: ConstrBuilder, parent: Expected, child: Expected) -> bool { log(b).contains((parent, child)) }

/// Expected::new(pos, &expect) / Expected::from(&AST): functions of their arguments (A-EXT)
pub uninterp spec fn exp_new(pos: Position, e: Expect) -> Expected;
pub uninterp spec fn exp_of(a: AST) -> Expected;

impl Expected {
    #[verifier::external_body]
    pub fn new(pos: Position, expect: &Expect) -> (r: Expected) ensures r == exp_new(pos, *expect) { unimplemented!() }
    #[verifier::external_body]
    pub fn any(pos: Position) -> Expected { unimplemented!() }
}
impl From<&AST> for Expected {
    #[verifier::external_body]
    fn from(a: &AST) -> (r: Expected) ensures r == exp_of(*a) { unimplemented!() }
}
impl From<&Box<AST>> for Expected {
    #[verifier::external_body]
    fn from(a: &Box<AST>) -> (r: Expected) ensures r == exp_of(**a) { unimplemented!() }
}
impl AST {
    #[verifier::external_body]
    pub fn new(pos: Position, node: Node) -> (r: AST) ensures r.pos == pos, r.node == node { unimplemented!() }
}
/// the Name a type annotation denotes (Name::try_from(&AST), iterator code): a function of the annotation
pub uninterp spec fn name_of(a: AST) -> Name;
impl Name {
    #[verifier::external_body]
    pub fn tuple(names: &[Name]) -> Name { unimplemented!() }
    #[verifier::external_body]
    pub fn try_from(a: &Box<AST>) -> (r: TypeResult<Name>)
        ensures r matches Ok(n) ==> n == name_of(**a), r is Err ==> r->Err_0@.len() >= 1,
    { unimplemented!() }
}
impl TypeErr {
    #[verifier::external_body]
    pub fn new(position: Position, msg: &str) -> TypeErr { unimplemented!() }
}
impl Identifier {
    #[verifier::external_body]
    pub fn try_from(var: &AST) -> (r: TypeResult<Identifier>) ensures r is Err ==> r->Err_0@.len() >= 1 { unimplemented!() }
    #[verifier::external_body]
    pub fn as_mutable(&self, mutable: bool) -> Identifier { unimplemented!() }
    /// A-EXT: an identifier has at least one field (the code panics otherwise: "cannot have empty identifier")
    #[verifier::external_body]
    pub fn fields(&self, pos: Position) -> (r: TypeResult<Vec<(bool, String)>>)
        ensures r matches Ok(v) ==> v@.len() >= 1, r is Err ==> r->Err_0@.len() >= 1,
    { unimplemented!() }
}
impl Environment {
//@@ FN src/check/constrain/generate/env.rs | impl Environment | is_expr
    ensures r == (Environment { is_expr: is_expr, ..*self }),                    //# frame_only_is_expr [C06]
//@@ END
//@@ FN src/check/constrain/generate/env.rs | impl Environment | in_fun
    ensures r == (Environment { in_fun: in_fun, ..*self }),                      //# frame_only_in_fun [C06]
//@@ END
//@@ FN src/check/constrain/generate/env.rs | impl Environment | return_type
    ensures r == (Environment { return_type: Some(*return_type), ..*self }),     //# return_type_is_recorded [C06]
//@@ END
    #[verifier::external_body]
    pub fn insert_var(&self, mutable: bool, var: &str, expect: &Expected, var_mapping: &VarMapping) -> Environment { unimplemented!() }
}
impl ConstrBuilder {
    #[verifier::external_body]
    pub fn temp_name(&mut self) -> (r: Name) ensures log(*final(self)) == log(*old(self)) { unimplemented!() }
    #[verifier::external_body]
    pub fn insert_var(&mut self, var: &str) ensures log(*final(self)) == log(*old(self)) { unimplemented!() }
    /// the one operation that records a constraint
    #[verifier::external_body]
    pub fn add(&mut self, msg: &str, parent: &Expected, child: &Expected, env: &Environment)
        ensures log(*final(self)) == log(*old(self)).push((*parent, *child)),
            // consequences of the line above, stated for the solver:
            has(*final(self), *parent, *child), grows(*old(self), *final(self)),
            forall|p: Expected, c: Expected| has(*old(self), p, c) ==> has(*final(self), p, c),
    { unimplemented!() }
}
/// the recursive constraint generator: may add constraints, never removes any (A-EXT)
#[verifier::external_body]
pub fn generate(ast: &AST, env: &Environment, ctx: &Context, constr: &mut ConstrBuilder) -> (r: Constrained)
    ensures grows(*old(constr), *final(constr)), r is Err ==> r->Err_0@.len() >= 1,
        forall|p: Expected, c: Expected| has(*old(constr), p, c) ==> has(*final(constr), p, c) /* consequence of grows (lemma_grows_keeps), stated for the solver */,
{ unimplemented!() }
/// HAVOCKED loops (HashMap iteration over match_name's result; itertools enumerate/zip over tuple elements): they
/// update the environment and may add constraints
#[verifier::external_body]
pub fn verif_havoc_loop(constr: &mut ConstrBuilder, env: &mut Environment) -> (r: TypeResult<()>)
    ensures grows(*old(constr), *final(constr)), r is Err ==> r->Err_0@.len() >= 1,
{ unimplemented!() }

/// the temp names the havocked loop over `fields` pushes: one per field
#[verifier::external_body]
pub fn verif_havoc_names(n: usize) -> (r: Vec<Name>) ensures r@.len() == n { unimplemented!() }

pub proof fn lemma_grows_keeps(a: ConstrBuilder, b: ConstrBuilder, p: Expected, c: Expected)
    requires grows(a, b), has(a, p, c),
    ensures has(b, p, c),
{
    let i = choose|i: int| 0 <= i < log(a).len() && log(a)[i] == (p, c);
    assert(log(b)[i] == log(a)[i]);
}

// ---- specification (C06, and the initialiser clause of C05) -------------------------------------------------------------
pub open spec fn type_exp(pos: Position, n: Name) -> Expected { exp_new(pos, Expect::Type { name: n }) }

pub open spec fn def_post(var: AST, ty: Option<Name>, expr: Option<Box<AST>>, b: ConstrBuilder) -> bool {
    match (ty, expr) {
        // `def v: T := e`: the declared type bounds the initialiser (T >= e) and the variable (T >= v)
        (Some(t), Some(e)) => has(b, type_exp(var.pos, t), exp_of(*e)) && has(b, type_exp(var.pos, t), exp_of(var)),
        // `def v: T`: the declared type bounds the variable
        (Some(t), None) => has(b, type_exp(var.pos, t), exp_of(var)),
        // `def v := e`: the variable is bound by its initialiser (v >= e) — this is what carries a T? initialiser
        // into the type of an un-annotated variable
        // ... and the (temporary) type under which the variable enters the environment is bounded below by the
        // initialiser as well: `@temp >= e` (for a tuple: the tuple of temporaries)
        (None, Some(e)) => has(b, exp_of(var), exp_of(*e))
            && exists|n: Name| has(b, #[trigger] exp_new(e.pos, Expect::Type { name: n }), exp_of(*e)),
        (None, None) => true,
    }
}

//@@ FN src/check/constrain/generate/definition.rs | free | id_from_var | props=C06,C05,C03
//@@ REPLACE
//@@< let mut names = vec![];
//@@> let names: Vec<Name> = Vec::new(); /* only used inside the havocked loop */
//@@ REPLACE count=2 pin=e62f866ad74a
//@@< for ($fname, ($fmut, $name)) in match_name(&identifier, ty, var.pos)? { $$ }
//@@> verif_havoc_loop(constr, &mut env)?;
//@@ REPLACE pin=5e9dc935e7c4
//@@< for ($fm, $nm) in &fields { $$ }
//@@> { verif_havoc_loop(constr, &mut env)?; temp_names = verif_havoc_names(fields.len()); }
//@@ REPLACE pin=521214f978e3
//@@< for ($i, ($e, $t)) in enumerate(elements.iter().zip(&temp_names)) { $$ }
//@@> verif_havoc_loop(constr, &mut env)?;
//@@ REPLACE pin=6867c535d3bb
//@@< for ($fm2, $fn2) in identifier.fields(var.pos)? { $$ }
//@@> { identifier.fields(var.pos)?; verif_havoc_loop(constr, &mut env)?; }
    ensures
        grows(*old(constr), *final(constr)),                                     //# constraints_are_never_dropped [C06,C05]
        r is Ok ==> def_post(*var, *ty, *expr, *final(constr)),                  //# definition_constraints_are_generated [C06,C05]
        r is Err ==> r->Err_0@.len() >= 1,                                       //# rejection_carries_a_diagnostic [C19]
//@@ END

// ---- return statements (C06 "as return value of a function returning T") ---------------------------------------------------
pub open spec fn stmt_post(ast: AST, env: Environment, r: Constrained, b0: ConstrBuilder, b1: ConstrBuilder) -> bool {
    match ast.node {
        // `return e` inside a function with a declared return type T: T >= e is recorded; outside such a function it
        // is rejected
        Node::Return { expr } => match env.return_type {
            Some(t) => r is Ok ==> has(b1, t, exp_of(*expr)),
            None => r is Err,
        },
        // a bare `return` in a function that declares a return type is rejected
        Node::ReturnEmpty => env.return_type is Some ==> r is Err,
        _ => true,
    }
}

/// HAVOCKED: the Raise arm of gen_stmt (HashSet::from_iter + check_raises_caught, a filter/any closure chain)
#[verifier::external_body]
pub fn verif_havoc_raise_arm(env: &Environment) -> (r: Constrained) ensures r is Err ==> r->Err_0@.len() >= 1 { unimplemented!() }

//@@ FN src/check/constrain/generate/statement.rs | free | gen_stmt | props=C06,C05,C03
//@@ REPLACE pin=d035525e9fdc
//@@< Node::Raise { error } => match &error.node { $$ },
//@@> Node::Raise { error } => verif_havoc_raise_arm(env),
    ensures
        grows(*old(constr), *final(constr)),                                     //# constraints_are_never_dropped [C06,C05]
        stmt_post(*ast, *env, r, *old(constr), *final(constr)),                  //# returned_value_is_bounded_by_the_declared_return_type [C06,C05]
        r is Err ==> r->Err_0@.len() >= 1,                                       //# rejection_carries_a_diagnostic [C19]
//@@ END

// ---- function definitions (C06 "as return value"; the body of a function is bounded by its declared return type) ---------
/// HAVOCKED preamble of gen_def's FunDef arm (constructor field bookkeeping, constrain_args, raises: iterator chains)
#[verifier::external_body]
pub fn verif_havoc_fundef_preamble(env: &Environment, constr: &mut ConstrBuilder) -> (r: TypeResult<(Option<Class>, Environment)>)
    ensures grows(*old(constr), *final(constr)), r is Err ==> r->Err_0@.len() >= 1,
{ unimplemented!() }
/// HAVOCKED: "non nullable attribute not assigned to in constructor" check (closure chain over a HashSet)
#[verifier::external_body]
pub fn verif_havoc_unassigned_check(class: &Class, body_env: &Environment) -> (r: TypeResult<()>)
    ensures r is Err ==> r->Err_0@.len() >= 1,
{ unimplemented!() }

pub open spec fn fundef_constr_post(ast: AST, b: ConstrBuilder) -> bool {
    match ast.node {
        Node::FunDef { id, args, ret, raises, body, pure } => match (body, ret) {
            // `def f(..) -> T => body`: T >= body is recorded
            (Some(bd), Some(t)) => has(b, type_exp(bd.pos, name_of(*t)), exp_of(*bd)),
            _ => true,
        },
        Node::VariableDef { mutable, var, ty, expr, forward } => match ty {
            Some(t) => def_post(*var, Some(name_of(*t)), expr, b),
            None => def_post(*var, None, expr, b),
        },
        _ => true,
    }
}

//@@ FN src/check/constrain/generate/definition.rs | free | gen_def | props=C06,C05,C03
//@@ REPLACE pin=833d3df8df40
//@@< let (class, non_nullable_class_vars) = match &id.node { $$ }; $$ let body_env = body_env.raises_caught(&raises);
//@@> let (class, body_env) = verif_havoc_fundef_preamble(env, constr)?;
//@@ REPLACE pin=83735b9c883f
//@@< if let Some(class) = class { $$ }
//@@> if let Some(class) = class { verif_havoc_unassigned_check(&class, &body_env)?; }
    ensures
        grows(*old(constr), *final(constr)),                                     //# constraints_are_never_dropped [C06,C05]
        r is Ok ==> fundef_constr_post(*ast, *final(constr)),                    //# body_is_bounded_by_the_declared_return_type [C06,C05]
        r is Err ==> r->Err_0@.len() >= 1,                                       //# rejection_carries_a_diagnostic [C19]
//@@ END

} // verus!

fn main() {}
