//@@ UNIT IMPFROM
// Unit IMPFROM — src/generate/convert/state.rs::Imports::add_from_import: the operation every `from m import n` the generator
// needs goes through (typing, abc, math ...).  Units IMP / CONVDEF / CONVNODE take it as an external with an assumed contract
// over an abstract table; here the real body is verified against a concrete reading: the table (a BTreeMap, replaced by a
// stand-in of the same name with the assumed finite-map contract) maps module m to ONE statement `from m import ..` whose
// list contains every name registered for m — registering never forgets a name of any module, and never touches the plain
// imports.  The sorted rebuild of the list (`iter().sorted_by_key(closure).cloned().collect()`, itertools) is outlined as a
// permutation (pinned).
#![feature(allocator_api)]
#![allow(unused_imports, dead_code, unused_variables, non_snake_case, unused_mut)]
use vstd::prelude::*;
use std::marker::PhantomData;

//@@ INCLUDE conv_types.inc.rs
/// stand-in for std::collections::BTreeMap (same name: the copied struct is verbatim)
pub struct BTreeMap<K, V> { _k: PhantomData<K>, _v: PhantomData<V> }
//@@ TYPE src/generate/convert/state.rs | struct | Imports | pubfields

verus! {

#[verifier::external_type_specification] pub struct ExPosition(Position);
#[verifier::external_type_specification] pub struct ExCaretPos(CaretPos);
#[verifier::external_type_specification] pub struct ExASTTy(ASTTy);
#[verifier::external_type_specification] pub struct ExNodeTy(NodeTy);
#[verifier::external_type_specification] pub struct ExNodeOp(NodeOp);
#[verifier::external_type_specification] pub struct ExCore(Core);
#[verifier::external_type_specification] pub struct ExCoreOp(CoreOp);
#[verifier::external_type_specification] pub struct ExCoreFunOp(CoreFunOp);
#[verifier::external_type_specification] pub struct ExStringName(StringName);
#[verifier::external_type_specification] pub struct ExState(State);
#[verifier::external_type_specification] #[verifier::external_body] pub struct ExName(Name);
#[verifier::external_type_specification] #[verifier::external_body] pub struct ExContext(Context);
#[verifier::external_type_specification] #[verifier::external_body] pub struct ExUnimplementedErr(UnimplementedErr);
#[verifier::external_type_specification] #[verifier::external_body] #[verifier::accept_recursive_types(K)] #[verifier::accept_recursive_types(V)]
pub struct ExBTreeMap<K, V>(BTreeMap<K, V>);
#[verifier::external_type_specification] pub struct ExImports(Imports);

pub assume_specification<'a>[<String as From<&'a str>>::from](s: &str) -> (r: String) ensures r@ == s@;
pub assume_specification[<Core as Clone>::clone](t: &Core) -> (r: Core) ensures r == *t;
pub assume_specification<T>[<Box<T> as From<T>>::from](t: T) -> (r: Box<T>) ensures *r == t;
// A-STD: slice::contains is membership (with structural == on Core, A-DERIVE); to_vec copies
pub assume_specification<T: PartialEq>[<[T]>::contains](s: &[T], x: &T) -> (r: bool) ensures r == s@.contains(*x);
pub assume_specification[<Core as PartialEq>::eq](a: &Core, b: &Core) -> (r: bool) ensures r == (*a == *b);
/// OUTLINED `imports.to_vec()` / `alias.clone()` / `imports.clone()` on Vec<Core>: element-wise copies (A-DERIVE)
#[verifier::external_body]
pub fn verif_copy(v: &Vec<Core>) -> (r: Vec<Core>) ensures r@ == v@ { unimplemented!() }

/// A-STD-COLL: a BTreeMap<String, Core> is a finite map from texts to statements
pub uninterp spec fn bm(m: BTreeMap<String, Core>) -> Map<Seq<char>, Core>;
impl BTreeMap<String, Core> {
    #[verifier::external_body]
    pub fn get(&self, k: &String) -> (r: Option<&Core>)
        ensures r matches Some(v) ==> bm(*self).contains_key(k@) && bm(*self)[k@] == *v, r is None ==> !bm(*self).contains_key(k@),
    { unimplemented!() }
    #[verifier::external_body]
    pub fn insert(&mut self, k: String, v: Core) -> (r: Option<Core>) ensures bm(*final(self)) == bm(*old(self)).insert(k@, v) { unimplemented!() }
}
/// OUTLINED `a.into_iter().chain(b).collect()`: concatenation (std semantics)
#[verifier::external_body]
pub fn verif_outline_chain(a: Vec<Core>, b: Vec<Core>) -> (r: Vec<Core>) ensures r@ == a@ + b@ { unimplemented!() }
/// OUTLINED `imports.iter().sorted_by_key(|c| match c { Core::Id { lit } => lit.clone(), _ => String::from("") }).cloned().collect()`
/// (itertools): the same statements in another order
#[verifier::external_body]
pub fn verif_sorted_by_name(v: &Vec<Core>) -> (r: Vec<Core>)
    ensures r@.len() == v@.len(), forall|x: Core| r@.contains(x) <==> v@.contains(x),
{ unimplemented!() }

// ---- specification (C16) --------------------------------------------------------------------------------------------------------
pub open spec fn id_named(c: Core, n: Seq<char>) -> bool { c matches Core::Id { lit } && lit@ == n }
/// the table holds a statement `from m import .., n, ..`
pub open spec fn has_from(i: Imports, m: Seq<char>, n: Seq<char>) -> bool {
    bm(i.from_imports).contains_key(m) && (bm(i.from_imports)[m] matches Core::Import { from, import, alias }
        && (from matches Some(f) && id_named(*f, m))
        && exists|k: int| 0 <= k < import@.len() && id_named(#[trigger] import@[k], n))
}
/// every entry of the table is a well-formed `from <its own key> import ..` statement
pub open spec fn table_wf(i: Imports) -> bool {
    forall|m: Seq<char>| bm(i.from_imports).contains_key(m) ==> (#[trigger] bm(i.from_imports)[m] matches Core::Import { from, import, alias } && (from matches Some(f) && id_named(*f, m)))
}

impl Imports {
//@@ FN src/generate/convert/state.rs | impl Imports | add_from_import | props=C16,C03
//@@ REPLACE
//@@< imports.clone().into_iter().chain(vec![new]).collect()
//@@> verif_outline_chain(verif_copy(imports), vec![new])
//@@ REPLACE
//@@< imports.to_vec()
//@@> verif_copy(imports)
//@@ REPLACE pin=79c3048c6496
//@@< imports .iter() .sorted_by_key($$) .cloned() .collect()
//@@> verif_sorted_by_name(&imports)
//@@ REPLACE
//@@< alias: alias.clone(),
//@@> alias: verif_copy(alias),
//@@ HINT before
//@@< if let Some(Core::Import { $$ }) = self.from_imports.get($$)
//@@> let ghost name0 = import@;
//@@ HINT after
//@@< alias: vec![], }; self.from_imports.insert(String::from(from), import);
//@@> proof { let fin = bm(self.from_imports)[from@]; if let Core::Import { from: ff, import: lst, alias: al } = fin { assert(id_named(lst@[0], name0)); } }
//@@ HINT after
//@@< let new = Core::Id { lit: String::from(import), };
//@@> let ghost new_g = new; let ghost old_g = imports@; let ghost name_g = import@;
//@@ HINT after
//@@< let imports: Vec<Core> = if $$ { $$ } else { $$ };
//@@> let ghost mid_g = imports@; proof { if mid_g.len() == old_g.len() + 1 { assert(mid_g[mid_g.len() - 1] == new_g); } }
//@@ CLAIM after
//@@< let imports: Vec<Core> = if $$ { $$ } else { $$ };
//@@> assert(mid_g.contains(new_g));  //# the_rebuilt_list_contains_the_new_name [C16]
//@@ CLAIM after
//@@< let imports: Vec<Core> = if $$ { $$ } else { $$ };
//@@> assert(forall|j: int| 0 <= j < old_g.len() ==> mid_g.len() > j && mid_g[j] == #[trigger] old_g[j]);  //# the_rebuilt_list_keeps_every_name_it_had [C16]
//@@ HINT after
//@@< let imports: Vec<Core> = if $$ { $$ } else { $$ };
//@@> proof { assert forall|x: Core| old_g.contains(x) implies mid_g.contains(x) by { let j = choose|j: int| 0 <= j < old_g.len() && old_g[j] == x; assert(mid_g[j] == x); } }
//@@ HINT before
//@@< return;
//@@> proof { let fin = bm(self.from_imports)[from@]; assert(fin == import); if let Core::Import { from: ff, import: lst, alias: al } = fin { assert(lst@.contains(new_g)); let k = choose|k: int| 0 <= k < lst@.len() && lst@[k] == new_g; assert(id_named(lst@[k], name_g)); assert forall|n: Seq<char>| has_from(*old(self), from@, n) implies has_from(*self, from@, n) by { let j = choose|j: int| 0 <= j < old_g.len() && id_named(#[trigger] old_g[j], n); assert(mid_g.contains(old_g[j])); assert(lst@.contains(old_g[j])); let k2 = choose|k2: int| 0 <= k2 < lst@.len() && lst@[k2] == old_g[j]; assert(id_named(lst@[k2], n)); } } }
    requires table_wf(*old(self)),                                               //# table_entries_are_from_statements_of_their_key [-]
    ensures
        table_wf(*final(self)),                                                  //# table_stays_well_formed [C16]
        has_from(*final(self), from@, import@),                                  //# the_name_is_registered_under_its_module [C16]
        forall|m: Seq<char>, n: Seq<char>| has_from(*old(self), m, n) ==> has_from(*final(self), m, n), //# no_registered_name_of_any_module_is_forgotten [C16]
        final(self).imports == old(self).imports,                                //# plain_imports_untouched [C16]
//@@ END
}

} // verus!

fn main() {}
