//@@ UNIT GENCALL
//@@ RLIMIT 20
// Unit GENCALL — src/check/constrain/generate/call.rs: the call / reassignment side of the constraint generator.
//   call_parameters      argument-by-argument subtype constraints + arity (C05, the fourth enforcing mechanism)
//   gen_call             Reassign arm: reassignable + mutability test come first (C07 call order);
//                        FunctionCall arm: a function found in the Context gets its parameters constrained, its
//                        return type recorded and its declared raises tested against the caught set (C05, C08)
//   check_reassignable   only identifiers and property chains of identifiers (C07)
//   reassign_op          `x op= e` is checked as `x := x op e` through the same Reassign path (C07)
// Shares the model of unit GENFLOW (gen_types / gen_model includes): std collections as stand-ins, the builder with
// its ghost constraint log (`has(b, parent, child)`) and visit log; Environment's methods are ASSUMED here with the
// contracts GENFLOW proves on their real bodies (assume-guarantee).
#![allow(unused_imports, dead_code, unused_variables, non_snake_case, unused_mut)]
#![feature(allocator_api)]
use vstd::prelude::*;
use std::convert::TryFrom;
use std::marker::PhantomData;
use vstd::std_specs::iter::IteratorSpec;

//@@ INCLUDE gen_types.inc.rs
//@@ TYPE src/check/context/arg/mod.rs | struct | FunctionArg
/// the context's function signature lives in its own module: call.rs never names the type, and `Function` is also a
/// variant of Expect that the code builds by its bare name
pub mod ctxfn {
    use super::*;
//@@ TYPE src/check/context/function/mod.rs | struct | Function | strip_derive=Eq
}
pub use crate::ctxfn::Function as CtxFunction;
//@@ TYPE src/check/ident.rs | enum | Identifier
//@@ TYPE src/check/ident.rs | enum | IdentiCall
/// stand-in for itertools::EitherOrBoth
pub enum EitherOrBoth<A, B> { Both(A, B), Left(A), Right(B) }
use crate::EitherOrBoth::{Both, Left, Right};

pub struct Class { _x: u8 }

verus! {

//@@ INCLUDE gen_model.inc.rs

#[verifier::external_type_specification] pub struct ExFunctionArg(FunctionArg);
#[verifier::external_type_specification] pub struct ExFunction(crate::ctxfn::Function);
#[verifier::external_type_specification] pub struct ExIdentifier(Identifier);
#[verifier::external_type_specification] pub struct ExIdentiCall(IdentiCall);
#[verifier::external_type_specification] #[verifier::external_body] pub struct ExClass(Class);
#[verifier::external_type_specification] #[verifier::reject_recursive_types(A)] #[verifier::reject_recursive_types(B)]
pub struct ExEitherOrBoth<A, B>(EitherOrBoth<A, B>);
pub assume_specification<T>[<Box<T> as From<T>>::from](t: T) -> (r: Box<T>) ensures *r == t;
pub assume_specification[<IdentiCall as Clone>::clone](t: &IdentiCall) -> (r: IdentiCall) ensures r == *t;

// ---- call_parameters (C05: "argument-by-argument subtype constraints", arity) --------------------------------------------------
/// the class a parameter type resolves to in the context (Context::class + Name::from(&Class)): a function of both
pub uninterp spec fn class_name(ctx: Context, ty: Name) -> Name;
pub uninterp spec fn cls_nm(c: Class) -> Name;
impl Context {
    #[verifier::external_body]
    pub fn class(&self, ty: &Name, pos: Position) -> (r: TypeResult<Class>)
        ensures r matches Ok(c) ==> cls_nm(c) == class_name(*self, *ty), r is Err ==> r->Err_0@.len() >= 1,
    { unimplemented!() }
    #[verifier::external_body]
    pub fn function(&self, f: &StringName, pos: Position) -> (r: TypeResult<CtxFunction>)
        ensures r matches Ok(fun) ==> fun == ctx_fun(*self, *f), r is Err ==> r->Err_0@.len() >= 1,
    { unimplemented!() }
}
/// the signature the context holds for a function name
pub uninterp spec fn ctx_fun(ctx: Context, f: StringName) -> CtxFunction;
impl From<&Class> for Name {
    #[verifier::external_body]
    fn from(c: &Class) -> (r: Name) ensures r == cls_nm(*c) { unimplemented!() }
}
impl Name {
    #[verifier::external_body]
    pub fn empty() -> Name { unimplemented!() }
}
impl Position {
    #[verifier::external_body]
    pub fn new(start: CaretPos, end: CaretPos) -> (r: Position) ensures r.start == start, r.end == end { unimplemented!() }
}

/// the actual arguments as (position, expectation): `self` first for a method call
pub open spec fn actuals(self_pos: Position, self_arg: Option<Expect>, args: Seq<AST>) -> Seq<(Position, Expect)> {
    let rest = Seq::new(args.len(), |i: int| (args[i].pos, Expect::Expression { ast: args[i] }));
    match self_arg { Some(s) => seq![(self_pos, s)] + rest, None => rest }
}
/// OUTLINED `args.iter().map(|arg| (arg.pos, Expression { ast: arg.clone() })).collect()`
#[verifier::external_body]
pub fn verif_arg_exprs(args: &[AST]) -> (r: Vec<(Position, Expect)>)
    ensures r@ == Seq::new(args@.len(), |i: int| (args@[i].pos, Expect::Expression { ast: args@[i] })),
{ unimplemented!() }
/// A-EXT (itertools): `a.iter().zip_longest(b.iter())` yields Both for the common prefix, then Left / Right for the rest
pub open spec fn zl_elem<'a>(a: Seq<FunctionArg>, b: Seq<(Position, Expect)>, i: int) -> EitherOrBoth<&'a FunctionArg, &'a (Position, Expect)> {
    if i < a.len() && i < b.len() { EitherOrBoth::Both(&a[i], &b[i]) } else if i < a.len() { EitherOrBoth::Left(&a[i]) } else { EitherOrBoth::Right(&b[i]) }
}
pub open spec fn zl_seq<'a>(a: Seq<FunctionArg>, b: Seq<(Position, Expect)>) -> Seq<EitherOrBoth<&'a FunctionArg, &'a (Position, Expect)>> {
    Seq::new(if a.len() >= b.len() { a.len() } else { b.len() }, |i: int| zl_elem(a, b, i))
}
#[verifier::external_body]
pub fn verif_zip_longest<'a>(a: &'a [FunctionArg], b: &'a Vec<(Position, Expect)>) -> (r: Vec<EitherOrBoth<&'a FunctionArg, &'a (Position, Expect)>>)
    ensures r@ == zl_seq(a@, b@),
{ unimplemented!() }
/// OUTLINED `opt.ok_or_else(|| TypeErr::new(pos, ".."))`
#[verifier::external_body]
pub fn verif_ok_or_err<T>(o: Option<T>, pos: Position) -> (r: TypeResult<T>)
    ensures o matches Some(t) ==> r == Ok::<T, Vec<TypeErr>>(t), o is None ==> r is Err && r->Err_0@.len() >= 1,
{ unimplemented!() }

/// parameter i is bounded: `class of the declared parameter type >= actual argument i`
pub open spec fn param_ok(p: FunctionArg, a: (Position, Expect), ctx: Context, b: ConstrBuilder) -> bool {
    p.ty matches Some(t) && has(b, type_exp(a.0, class_name(ctx, t)), exp_new(a.0, a.1))
}
pub open spec fn params_post(possible: Seq<FunctionArg>, act: Seq<(Position, Expect)>, ctx: Context, b: ConstrBuilder) -> bool {
    // no unexpected argument
    &&& act.len() <= possible.len()
    // every actual argument is bounded by the class of its parameter's declared type
    &&& forall|i: int| 0 <= i < act.len() ==> param_ok(#[trigger] possible[i], act[i], ctx, b)
    // every parameter without an argument has a default
    &&& forall|i: int| act.len() <= i < possible.len() ==> (#[trigger] possible[i]).has_default
}

//@@ FN src/check/constrain/generate/call.rs | free | call_parameters | props=C05,C03
//@@ REPLACE count=2
//@@< args .iter() .map(|$a| ($a.pos, Expression { ast: $a.clone() })) .collect()
//@@> verif_arg_exprs(args)
//@@ REPLACE
//@@< possible.iter().zip_longest(args.iter())
//@@> verif_zip_longest(possible, &args)
//@@ REPLACE
//@@< fun_arg.ty.clone().ok_or_else($$)
//@@> verif_ok_or_err(fun_arg.ty.clone(), *pos) /* yields the Vec<TypeErr> the `?` would convert the single error into */
//@@ REPLACE
//@@< Left($fa) if $$ =>
//@@> Left($fa) => if $$1 /* guard folded into the arm (the only later arm that matches Left is `_ => {}`): Verus loses final(constr) in a match with guards */
//@@ HINT before
//@@< let args = if let Some($sa) = self_arg { $$ } else { $$ };
//@@> let ghost args0: Seq<AST> = args@;
//@@ HINT after
//@@< let args = if let Some($sa) = self_arg { $$ } else { $$ };
//@@> let ghost act = args@; assert(act =~= actuals(self_ast.pos, *self_arg, args0));
//@@ HINT before
//@@< for either_or_both in
//@@> let ghost mut n_done: int = 0;
//@@ ITERNAME
//@@< for either_or_both in
//@@> for either_or_both in zit:
//@@ HINT before
//@@< match either_or_both {
//@@> let ghost k = zit.index@; assert(either_or_both == zl_seq(possible@, act)[k]); assert(either_or_both == zl_elem(possible@, act, k)); proof { n_done = k + 1; }
//@@ HINT after
//@@< Both($fa2, ($ps, $ar)) => {
//@@> assert(*$fa2 == possible@[k]); assert((*$ps, *$ar) == act[k]);
//@@ HINT before
//@@< Ok(())
//@@> proof { assert(n_done == zl_seq(possible@, act).len()); if act.len() > possible@.len() { let j = possible@.len() as int; assert(j < n_done); let _ = possible@[j]; } }
//@@ CLAIM before
//@@< Ok(())
//@@> assert(params_post(possible@, act, *ctx, *constr));  //# all_arguments_are_bounded_and_arity_matches [C05]
//@@ LOOPINV
//@@< for either_or_both in $$.zip_longest($$)
//@@> invariant zit.history@ + zit.iter.remaining() == zl_seq(possible@, act), zit.history@.len() == zit.index@, zit.index@ <= zl_seq(possible@, act).len(), n_done == zit.index@, grows(*old(constr), *constr),
//@@ INVCLAIM
//@@< for either_or_both in $$.zip_longest($$)
//@@> forall|i: int| 0 <= i < zit.index@ ==> i < possible@.len() && (i < act.len() ==> param_ok(#[trigger] possible@[i], act[i], *ctx, *constr)) && (i >= act.len() ==> possible@[i].has_default), //# loop_every_argument_so_far_is_bounded_by_its_parameter [C05]
    ensures
        grows(*old(constr), *final(constr)),                                     //# constraints_are_never_dropped [C05]
        r is Ok ==> params_post(possible@, actuals(self_ast.pos, *self_arg, args@), *ctx, *final(constr)), //# every_argument_is_bounded_by_its_parameter_and_arity_matches [C05]
        r is Err ==> r->Err_0@.len() >= 1,                                       //# rejection_carries_a_diagnostic [-]
//@@ END

} // verus!

fn main() {}
