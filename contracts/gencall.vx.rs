//@@ UNIT GENCALL
//@@ RLIMIT 20
// Unit GENCALL — src/check/constrain/generate/call.rs: the call / reassignment side of the constraint generator.
//   call_parameters      argument-by-argument subtype constraints + arity (C05, the fourth enforcing mechanism)
//   gen_call             Reassign arm: reassignable + mutability test come first (C07 call order);
//                        FunctionCall arm: a function found in the Context gets its parameters constrained, its
//                        return type recorded and its declared raises tested against the caught set (C05, C08)
//   check_reassignable   only identifiers and property chains of identifiers (C07)
//   reassign_op          `x op= e` is checked as `x := x op e` through the same Reassign path (C07)
// Shares the model of unit GENFLOW (gen_types / gen_model includes): std collections as stand-ins, the builder with
// its ghost constraint log (`has(b, parent, child)`) and visit log; Environment's methods are ASSUMED here with the
// contracts GENFLOW proves on their real bodies (assume-guarantee).
#![allow(unused_imports, dead_code, unused_variables, non_snake_case, unused_mut)]
#![feature(allocator_api)]
use vstd::prelude::*;
use std::convert::TryFrom;
use std::marker::PhantomData;
use std::ops::Deref;
use vstd::std_specs::iter::IteratorSpec;

//@@ INCLUDE gen_types.inc.rs
//@@ TYPE src/check/context/arg/mod.rs | struct | FunctionArg
/// the context's function signature lives in its own module: call.rs never names the type, and `Function` is also a
/// variant of Expect that the code builds by its bare name
pub mod ctxfn {
    use super::*;
//@@ TYPE src/check/context/function/mod.rs | struct | Function | strip_derive=Eq
}
pub use crate::ctxfn::Function as CtxFunction;
//@@ TYPE src/check/ident.rs | enum | Identifier
//@@ TYPE src/check/ident.rs | enum | IdentiCall
/// stand-in for itertools::EitherOrBoth
pub enum EitherOrBoth<A, B> { Both(A, B), Left(A), Right(B) }
use crate::EitherOrBoth::{Both, Left, Right};

pub struct Class { _x: u8 }

verus! {

//@@ INCLUDE gen_model.inc.rs

#[verifier::external_type_specification] pub struct ExFunctionArg(FunctionArg);
#[verifier::external_type_specification] pub struct ExFunction(crate::ctxfn::Function);
#[verifier::external_type_specification] pub struct ExIdentifier(Identifier);
#[verifier::external_type_specification] pub struct ExIdentiCall(IdentiCall);
#[verifier::external_type_specification] #[verifier::external_body] pub struct ExClass(Class);
#[verifier::external_type_specification] #[verifier::reject_recursive_types(A)] #[verifier::reject_recursive_types(B)]
pub struct ExEitherOrBoth<A, B>(EitherOrBoth<A, B>);
pub assume_specification<T>[<Box<T> as From<T>>::from](t: T) -> (r: Box<T>) ensures *r == t;
pub assume_specification[<IdentiCall as Clone>::clone](t: &IdentiCall) -> (r: IdentiCall) ensures r == *t;

// ---- further /repo functions with ASSUMED contracts in this unit (bodies pinned) ------------------------------------------------
//@@ ASSUME src/check/context/function/mod.rs | impl LookupFunction<&StringName, Function> for Context | function
//@@ ASSUME src/check/context/clss/mod.rs | impl LookupClass<&Name, HashSet<Class>> for Context | class
//@@ ASSUME src/check/ident.rs | impl Identifier | fields
//@@ ASSUME src/check/ident.rs | impl Identifier | all_calls
//@@ ASSUME src/check/ident.rs | impl IdentiCall | without_obj
//@@ ASSUME src/check/ident.rs | impl TryFrom<&AST> for Identifier | try_from
// ---- call_parameters (C05: "argument-by-argument subtype constraints", arity) --------------------------------------------------
/// the class a parameter type resolves to in the context (Context::class + Name::from(&Class)): a function of both
pub uninterp spec fn class_name(ctx: Context, ty: Name) -> Name;
pub uninterp spec fn cls_nm(c: Class) -> Name;
impl Context {
    #[verifier::external_body]
    pub fn class(&self, ty: &Name, pos: Position) -> (r: TypeResult<Class>)
        ensures r matches Ok(c) ==> cls_nm(c) == class_name(*self, *ty), r is Err ==> r->Err_0@.len() >= 1,
    { unimplemented!() }
    #[verifier::external_body]
    pub fn function(&self, f: &StringName, pos: Position) -> (r: TypeResult<CtxFunction>)
        ensures r matches Ok(fun) ==> fun == ctx_fun(*self, *f), r is Err ==> r->Err_0@.len() >= 1,
    { unimplemented!() }
}
/// the signature the context holds for a function name
pub uninterp spec fn ctx_fun(ctx: Context, f: StringName) -> CtxFunction;
impl From<&Class> for Name {
    #[verifier::external_body]
    fn from(c: &Class) -> (r: Name) ensures r == cls_nm(*c) { unimplemented!() }
}
impl Name {
    #[verifier::external_body]
    pub fn empty() -> Name { unimplemented!() }
}
impl AST {
    #[verifier::external_body]
    pub fn new(pos: Position, node: Node) -> (r: AST) ensures r == (AST { pos: pos, node: node }) { unimplemented!() }
}
impl Position {
    #[verifier::external_body]
    pub fn new(start: CaretPos, end: CaretPos) -> (r: Position) ensures r.start == start, r.end == end { unimplemented!() }
}

/// the actual arguments as (position, expectation): `self` first for a method call
pub open spec fn actuals(self_pos: Position, self_arg: Option<Expect>, args: Seq<AST>) -> Seq<(Position, Expect)> {
    let rest = Seq::new(args.len(), |i: int| (args[i].pos, Expect::Expression { ast: args[i] }));
    match self_arg { Some(s) => seq![(self_pos, s)] + rest, None => rest }
}
/// OUTLINED `args.iter().map(|arg| (arg.pos, Expression { ast: arg.clone() })).collect()`
#[verifier::external_body]
pub fn verif_arg_exprs(args: &[AST]) -> (r: Vec<(Position, Expect)>)
    ensures r@ == Seq::new(args@.len(), |i: int| (args@[i].pos, Expect::Expression { ast: args@[i] })),
{ unimplemented!() }
/// A-EXT (itertools): `a.iter().zip_longest(b.iter())` yields Both for the common prefix, then Left / Right for the rest
pub open spec fn zl_elem<'a>(a: Seq<FunctionArg>, b: Seq<(Position, Expect)>, i: int) -> EitherOrBoth<&'a FunctionArg, &'a (Position, Expect)> {
    if i < a.len() && i < b.len() { EitherOrBoth::Both(&a[i], &b[i]) } else if i < a.len() { EitherOrBoth::Left(&a[i]) } else { EitherOrBoth::Right(&b[i]) }
}
pub open spec fn zl_seq<'a>(a: Seq<FunctionArg>, b: Seq<(Position, Expect)>) -> Seq<EitherOrBoth<&'a FunctionArg, &'a (Position, Expect)>> {
    Seq::new(if a.len() >= b.len() { a.len() } else { b.len() }, |i: int| zl_elem(a, b, i))
}
#[verifier::external_body]
pub fn verif_zip_longest<'a>(a: &'a [FunctionArg], b: &'a Vec<(Position, Expect)>) -> (r: Vec<EitherOrBoth<&'a FunctionArg, &'a (Position, Expect)>>)
    ensures r@ == zl_seq(a@, b@),
{ unimplemented!() }
/// OUTLINED `opt.ok_or_else(|| TypeErr::new(pos, ".."))`
#[verifier::external_body]
pub fn verif_ok_or_err<T>(o: Option<T>, pos: Position) -> (r: TypeResult<T>)
    ensures o matches Some(t) ==> r == Ok::<T, Vec<TypeErr>>(t), o is None ==> r is Err && r->Err_0@.len() >= 1,
{ unimplemented!() }

/// parameter i is bounded: `class of the declared parameter type >= actual argument i`
pub open spec fn param_ok(p: FunctionArg, a: (Position, Expect), ctx: Context, b: ConstrBuilder) -> bool {
    p.ty matches Some(t) && has(b, type_exp(a.0, class_name(ctx, t)), exp_new(a.0, a.1))
}
pub open spec fn params_post(possible: Seq<FunctionArg>, act: Seq<(Position, Expect)>, ctx: Context, b: ConstrBuilder) -> bool {
    // no unexpected argument
    &&& act.len() <= possible.len()
    // every actual argument is bounded by the class of its parameter's declared type
    &&& forall|i: int| 0 <= i < act.len() ==> param_ok(#[trigger] possible[i], act[i], ctx, b)
    // every parameter without an argument has a default
    &&& forall|i: int| act.len() <= i < possible.len() ==> (#[trigger] possible[i]).has_default
}

//@@ FN src/check/constrain/generate/call.rs | free | call_parameters | props=C05,C03
//@@ REPLACE count=2
//@@< args .iter() .map(|$a| ($a.pos, Expression { ast: $a.clone() })) .collect()
//@@> verif_arg_exprs(args)
//@@ REPLACE
//@@< possible.iter().zip_longest(args.iter())
//@@> verif_zip_longest(possible, &args)
//@@ REPLACE pin=c909ce0e8813
//@@< fun_arg.ty.clone().ok_or_else($$)
//@@> verif_ok_or_err(fun_arg.ty.clone(), *pos) /* yields the Vec<TypeErr> the `?` would convert the single error into */
//@@ REPLACE
//@@< Left($fa) if $$ =>
//@@> Left($fa) => if $$1 /* guard folded into the arm (the only later arm that matches Left is `_ => {}`): Verus loses final(constr) in a match with guards */
//@@ HINT before
//@@< let args = if let Some($sa) = self_arg { $$ } else { $$ };
//@@> let ghost args0: Seq<AST> = args@;
//@@ HINT after
//@@< let args = if let Some($sa) = self_arg { $$ } else { $$ };
//@@> let ghost act = args@;
//@@ CLAIM after
//@@< let args = if let Some($sa) = self_arg { $$ } else { $$ };
//@@> assert(act =~= actuals(self_ast.pos, *self_arg, args0));  //# actual_arguments_are_self_then_the_arguments_in_order [C05]
//@@ HINT before
//@@< for either_or_both in
//@@> let ghost mut n_done: int = 0;
//@@ ITERNAME
//@@< for either_or_both in
//@@> for either_or_both in zit:
//@@ HINT before
//@@< match either_or_both {
//@@> let ghost k = zit.index@; assert(either_or_both == zl_seq(possible@, act)[k]); assert(either_or_both == zl_elem(possible@, act, k)); proof { n_done = k + 1; }
//@@ HINT after
//@@< Both($fa2, ($ps, $ar)) => {
//@@> assert(*$fa2 == possible@[k]); assert((*$ps, *$ar) == act[k]);
//@@ HINT before
//@@< Ok(())
//@@> proof { assert(n_done == zl_seq(possible@, act).len()); if act.len() > possible@.len() { let j = possible@.len() as int; assert(j < n_done); let _ = possible@[j]; } }
//@@ CLAIM before
//@@< Ok(())
//@@> assert(params_post(possible@, act, *ctx, *constr));  //# all_arguments_are_bounded_and_arity_matches [C05]
//@@ LOOPINV
//@@< for either_or_both in $$.zip_longest($$)
//@@> invariant zit.history@ + zit.iter.remaining() == zl_seq(possible@, act), zit.history@.len() == zit.index@, zit.index@ <= zl_seq(possible@, act).len(), n_done == zit.index@, grows(*old(constr), *constr), mono(*old(constr), *constr), constr.var_mapping == old(constr).var_mapping,
//@@ INVCLAIM
//@@< for either_or_both in $$.zip_longest($$)
//@@> forall|i: int| 0 <= i < zit.index@ ==> i < possible@.len() && (i < act.len() ==> param_ok(#[trigger] possible@[i], act[i], *ctx, *constr)) && (i >= act.len() ==> possible@[i].has_default), //# loop_every_argument_so_far_is_bounded_by_its_parameter [C05]
    ensures
        grows(*old(constr), *final(constr)),                                     //# constraints_are_never_dropped [C05]
        mono(*old(constr), *final(constr)), final(constr).var_mapping == old(constr).var_mapping, //# visit_log_and_global_mapping_untouched [-]
        r is Ok ==> params_post(possible@, actuals(self_ast.pos, *self_arg, args@), *ctx, *final(constr)), //# every_argument_is_bounded_by_its_parameter_and_arity_matches [C05]
        r is Err ==> r->Err_0@.len() >= 1,                                       //# rejection_carries_a_diagnostic [-]
//@@ END


// ---- check_reassignable (C07: only identifiers and property chains of identifiers can be assigned to) ------------------------
/// OUTLINED `Identifier::try_from(ast).map_err(|errs| ..)` (closure only rewrites the messages)
pub uninterp spec fn plain_ident(a: AST) -> Option<Identifier>;
#[verifier::external_body]
pub fn verif_identifier_of(ast: &AST) -> (r: TypeResult<Identifier>)
    ensures r matches Ok(i) ==> plain_ident(*ast) == Some(i), r is Err ==> plain_ident(*ast) is None && r->Err_0@.len() >= 1,
{ unimplemented!() }

/// what may stand on the left of `:=`: a plain identifier pattern, or a chain `a.b.c` whose links are SINGLE identifiers
pub open spec fn reassignable(a: AST) -> Option<Identifier>
    decreases a
{
    match a.node {
        Node::PropertyCall { instance, property } => match reassignable(*property) {
            Some(Identifier::Single(m, prop_call)) => match reassignable(*instance) {
                Some(Identifier::Single(_m2, inst_call)) => Some(Identifier::Single(m, IdentiCall::Call(Box::new(inst_call), Box::new(prop_call)))),
                _ => None,
            },
            _ => None,
        },
        _ => plain_ident(a),
    }
}

//@@ FN src/check/constrain/generate/call.rs | free | check_reassignable | props=C07,C03
//@@ REPLACE pin=cb854f27c071
//@@< Identifier::try_from(ast).map_err($$)
//@@> verif_identifier_of(ast)
    ensures
        r matches Ok(i) ==> reassignable(*ast) == Some(i),                       //# accepted_targets_are_identifier_chains [C07]
        r is Err ==> reassignable(*ast) is None,                                 //# everything_else_is_rejected [C07]
        r is Err ==> r->Err_0@.len() >= 1,                                       //# rejection_carries_a_diagnostic [-]
    decreases *ast
//@@ END

// ---- reassign_op (C07: `x op= e` is checked as `x := x op e`, through the same Reassign path) -----------------------------------
pub open spec fn op_node(op: NodeOp, left: AST, right: AST) -> Option<Node> {
    match op {
        NodeOp::Add => Some(Node::Add { left: Box::new(left), right: Box::new(right) }),
        NodeOp::Sub => Some(Node::Sub { left: Box::new(left), right: Box::new(right) }),
        NodeOp::Mul => Some(Node::Mul { left: Box::new(left), right: Box::new(right) }),
        NodeOp::Div => Some(Node::Div { left: Box::new(left), right: Box::new(right) }),
        NodeOp::Pow => Some(Node::Pow { left: Box::new(left), right: Box::new(right) }),
        NodeOp::BLShift => Some(Node::BLShift { left: Box::new(left), right: Box::new(right) }),
        NodeOp::BRShift => Some(Node::BRShift { left: Box::new(left), right: Box::new(right) }),
        _ => None,
    }
}
/// the plain assignment a compound assignment stands for
pub open spec fn desugared(ast: AST, left: AST, right: AST, op: NodeOp) -> Option<AST> {
    match op_node(op, left, right) {
        Some(n) => Some(AST { pos: ast.pos, node: Node::Reassign { left: Box::new(left), right: Box::new(AST { pos: ast.pos, node: n }), op: NodeOp::Assign } }),
        None => None,
    }
}

//@@ FN src/check/constrain/generate/call.rs | free | reassign_op | props=C07,C01,C03
    ensures
        mono(*old(constr), *final(constr)), grows(*old(constr), *final(constr)), //# nothing_is_forgotten [C07]
        r matches Ok(e) ==> e == *env && (desugared(*ast, *left, *right, *op) matches Some(d) && seen(*final(constr), d, *env)), //# compound_assignment_is_checked_as_plain_assignment_of_the_same_target [C07]
        r is Err ==> r->Err_0@.len() >= 1,                                       //# rejection_carries_a_diagnostic [-]
//@@ END


// ---- gen_call (C07: every reassignment passes the reassignable + mutability tests first; C05/C08: a call of a function known
// ---- to the context gets its parameters constrained, its return type recorded and its declared raises tested) -----------------
// ---- check_iden_mut: the mutability VERDICT (C07).  The function is `fields.iter().flat_map(|(f_mut, var)| match .. ).collect()`;
// ---- one declared rewrite turns `iter().flat_map(closure).collect()` into a call of a generic helper that takes the SAME closure
// ---- (parameter pattern spelled as a `let`, body carried verbatim) with a spliced postcondition: the closure body — the match
// ---- with its guards, i.e. the rule itself — is verified against the specification below, written from the property text --------
/// a target (declared-mutable flag of the identifier, name) may be assigned iff ...
pub open spec fn target_ok(env: Environment, g: VarMapping, f: (bool, String)) -> bool {
    if visible(env, g, f.1@) {
        // ... it is defined: the identifier is a mutable target AND every definition recorded for the name is mutable (not fin)
        f.0 && forall|m: bool, x: Expected| hs(hm(env.vars)[lookup_key(env, g, f.1@)]).contains((m, x)) ==> m
    } else {
        // ... a name that was never defined cannot be assigned — except `self` inside a class
        f.0 && f.1@ == "self"@ && env.class is Some
    }
}
pub uninterp spec fn id_fields_seq(i: Identifier) -> Seq<(bool, String)>;
pub uninterp spec fn id_has_fields(i: Identifier) -> bool;
pub open spec fn iden_mut_ok(id: Identifier, env: Environment, global: VarMapping) -> bool {
    forall|k: int| 0 <= k < id_fields_seq(id).len() ==> target_ok(env, global, #[trigger] id_fields_seq(id)[k])
}
//@@ INCLUDE ident_spec.inc.rs
impl Identifier {
    /// unit IDENT verifies this contract on the real body; here it is assumed (assume-guarantee)
    #[verifier::external_body]
    pub fn all_calls(&self) -> (r: Vec<IdentiCall>) ensures r@ == calls_of(*self) { unimplemented!() }
    /// A-EXT: the (flag, name) pairs of an identifier (recursive iterator code: a function of it)
    #[verifier::external_body]
    pub fn fields(&self, pos: Position) -> (r: TypeResult<Vec<(bool, String)>>)
        ensures r is Ok <==> id_has_fields(*self), r matches Ok(v) ==> v@ == id_fields_seq(*self), r is Err ==> r->Err_0@.len() >= 1,
    { unimplemented!() }
}
/// A-REWRITE: `v.iter().flat_map(f).collect::<Vec<String>>()` is the concatenation of f's results: empty iff every part is
/// empty.  `pred` is a ghost name for "this element's part is empty"; the caller must show that f's postcondition implies it.
#[verifier::external_body]
pub fn verif_flat_map_collect<T, F: Fn(&T) -> Vec<String>>(v: &Vec<T>, f: F, Ghost(pred): Ghost<spec_fn(T) -> bool>) -> (r: Vec<String>)
    requires forall|k: int| 0 <= k < v@.len() ==> #[trigger] f.requires((&v@[k],)),
        forall|k: int, out: Vec<String>| 0 <= k < v@.len() && #[trigger] f.ensures((&v@[k],), out) ==> (out@.len() == 0 <==> pred(v@[k])),
    ensures r@.len() == 0 <==> (forall|k: int| 0 <= k < v@.len() ==> pred(#[trigger] v@[k])),
{ unimplemented!() }
/// OUTLINED `exps.iter().filter(|(is_mut, _)| !*is_mut).map(|(_, var)| format!(..)).collect()`: one message per immutable definition
#[verifier::external_body]
pub fn verif_immutable_defs(exps: &HashSet<(bool, Expected)>) -> (r: Vec<String>)
    ensures r@.len() == 0 <==> (forall|m: bool, x: Expected| hs(*exps).contains((m, x)) ==> m),
{ unimplemented!() }
/// OUTLINED `var == SELF` (&String against &str)
#[verifier::external_body]
pub fn verif_string_is(a: &String, b: &str) -> (r: bool) ensures r == (a@ == b@) { unimplemented!() }
/// OUTLINED `errors.iter().map(|msg| TypeErr::new(pos, msg)).collect()`: one diagnostic per message
#[verifier::external_body]
pub fn verif_errs(errors: &Vec<String>, pos: Position) -> (r: Vec<TypeErr>) ensures r@.len() == errors@.len() { unimplemented!() }
pub const SELF: &'static str = "self";
pub mod arg {
//@@ CONST src/check/context/arg/mod.rs | SELF
}
impl IdentiCall {
    /// unit IDENT verifies this contract on the real body; here it is assumed (assume-guarantee)
    #[verifier::external_body]
    pub fn without_obj(&self, object: &str, pos: Position) -> (r: TypeResult<IdentiCall>)
        ensures match stripped(*self, object@) { Some(c) => r == Ok::<IdentiCall, Vec<TypeErr>>(c), None => r is Err && r->Err_0@.len() >= 1 },
    { unimplemented!() }
}

//@@ FN src/check/constrain/generate/call.rs | free | check_iden_mut | props=C07,C03
//@@ REPLACE deep
//@@< id .fields(pos)? .iter() .flat_map(|($fm, $v)| $$) .collect()
//@@> verif_flat_map_collect(&id.fields(pos)?, |verif_p: &(bool, String)| -> (out: Vec<String>) ensures /*# a_target_is_assignable_iff_defined_mutable_or_self_in_a_class [C07] #*/ out@.len() == 0 <==> target_ok(*env, constr.var_mapping, *verif_p), { let ($fm, $v) = verif_p; $$1 }, Ghost(|f: (bool, String)| target_ok(*env, constr.var_mapping, f)))
//@@ REPLACE pin=2408e83b1ed6
//@@< $ex .iter() .filter($$) .map($$) .collect()
//@@> verif_immutable_defs(&$ex)
//@@ REPLACE
//@@< var == SELF
//@@> verif_string_is(var, SELF)
//@@ REPLACE pin=322ad62c3d60
//@@< errors.iter().map($$).collect()
//@@> verif_errs(&errors, pos)
    ensures
        *final(constr) == *old(constr),                                          //# the_test_changes_nothing [-]
        r is Ok <==> (id_has_fields(*id) && iden_mut_ok(*id, *env, old(constr).var_mapping)), //# reassignment_is_accepted_iff_every_target_is_assignable [C07]
        r is Err ==> r->Err_0@.len() >= 1,                                       //# rejection_carries_a_diagnostic [-]
//@@ END

/// unit GENFLOW proves this contract on the real body (assume-guarantee)
pub uninterp spec fn covered(ctx: Context, n: TrueName, caught: Set<TrueName>) -> bool;
pub open spec fn all_covered(ctx: Context, raises: Set<TrueName>, caught: Set<TrueName>) -> bool {
    forall|n: TrueName| raises.contains(n) ==> covered(ctx, n, caught)
}
#[verifier::external_body]
pub fn check_raises_caught(raises: &HashSet<TrueName>, env: &Environment, ctx: &Context, pos: Position) -> (r: Constrained<()>)
    ensures r is Ok <==> (!env.in_fun || all_covered(*ctx, hs(*raises), hs(env.raises_caught))), r is Err ==> r->Err_0@.len() >= 1,
{ unimplemented!() }
/// unit GENFLOW proves the chain contract of gen_vec; here only its consequence for carry_env == false is used
#[verifier::external_body]
pub fn gen_vec(asts: &[AST], env: &Environment, carry_env: bool, ctx: &Context, constr: &mut ConstrBuilder) -> (r: Constrained)
    ensures mono(*old(constr), *final(constr)), grows(*old(constr), *final(constr)),
        (r is Ok && !carry_env) ==> r == Ok::<Environment, Vec<TypeErr>>(*env) && forall|i: int| 0 <= i < asts@.len() ==> seen(*final(constr), #[trigger] asts@[i], *env),
        r is Err ==> r->Err_0@.len() >= 1,
{ unimplemented!() }
/// unit GENOP verifies this contract (and more) on the real body of gen_magic; here it is assumed (assume-guarantee; GENOP
/// is a unit of every property that uses GENCALL)
#[verifier::external_body]
pub fn gen_magic(name: &str, ast: &AST, left: &AST, right: &AST, env: &Environment, ctx: &Context, constr: &mut ConstrBuilder) -> (r: Constrained)
    ensures mono(*old(constr), *final(constr)), grows(*old(constr), *final(constr)), r is Err ==> r->Err_0@.len() >= 1,
{ unimplemented!() }
pub const GET_ITEM: &'static str = "__getitem__";
/// the function name a call node names (StringName::try_from: iterator code over the generics)
pub uninterp spec fn sn_of(a: AST) -> StringName;
pub uninterp spec fn print_name() -> StringName;
impl StringName {
    #[verifier::external_body]
    pub fn try_from(a: &Box<AST>) -> (r: TypeResult<StringName>) ensures r matches Ok(n) ==> n == sn_of(**a), r is Err ==> r->Err_0@.len() >= 1 { unimplemented!() }
}
/// OUTLINED `f_name == StringName::from(function::PRINT)`
#[verifier::external_body]
pub fn verif_is_print(f: &StringName) -> (r: bool) ensures r == (*f == print_name()) { unimplemented!() }
/// HAVOCKED: `args.iter().map(|arg| Constraint::stringy(..)).for_each(|cons| constr.add_constr(&cons, env))` — only adds
#[verifier::external_body]
pub fn verif_havoc_print_constraints(args: &Vec<AST>, env: &Environment, constr: &mut ConstrBuilder)
    ensures mono(*old(constr), *final(constr)), grows(*old(constr), *final(constr)), final(constr).var_mapping == old(constr).var_mapping,
{ unimplemented!() }
/// HAVOCKED: the loop over the (HashSet of) local function values `for (_, fun_exp) in functions { .. constr.add(..) }`
#[verifier::external_body]
pub fn verif_havoc_local_function_loop(functions: HashSet<(bool, Expected)>, args: &Vec<AST>, env: &Environment, constr: &mut ConstrBuilder)
    ensures mono(*old(constr), *final(constr)), grows(*old(constr), *final(constr)),
{ unimplemented!() }
// ---- the Reassign arm's bookkeeping of constructor fields (C09): `identifier.all_calls().iter().flat_map(c1).flat_map(c2).fold(env.clone(), c3)`
/// the name of the field if the chain is exactly `self.<field>`
pub open spec fn self_field(c: IdentiCall) -> Option<Seq<char>> {
    match stripped(c, arg::SELF@) { Some(IdentiCall::Iden(v)) => Some(v@), _ => None }
}
/// the fields of self the first n targets assign DIRECTLY (`self.x := ..`; not `self.x.y := ..`, not `x := ..`)
pub open spec fn self_fields(calls: Seq<IdentiCall>, n: int) -> Set<Seq<char>>
    decreases n
{
    if n <= 0 || n > calls.len() { Set::empty() } else {
        match self_field(calls[n - 1]) { Some(v) => self_fields(calls, n - 1).insert(v), None => self_fields(calls, n - 1) }
    }
}
pub open spec fn strip_post(c: IdentiCall, o: TypeResult<IdentiCall>) -> bool {
    match stripped(c, arg::SELF@) { Some(x) => o == Ok::<IdentiCall, Vec<TypeErr>>(x), None => o is Err }
}
pub open spec fn pick_post(ic: IdentiCall, o: Option<String>) -> bool {
    match ic { IdentiCall::Iden(v) => o == Some(v), IdentiCall::Call(_, _) => o is None }
}
pub open spec fn discharge_post(e: Environment, v: Seq<char>, o: Environment) -> bool {
    o == (Environment { unassigned: o.unassigned, ..e }) && hss(o.unassigned) == hss(e.unassigned).remove(v)
}
/// one element's passage through the chain: environment before -> after
pub open spec fn chain_step(c: IdentiCall, o1: TypeResult<IdentiCall>, o2: Option<String>, before: Environment, after: Environment) -> bool {
    strip_post(c, o1) && match o1 {
        Ok(ic) => pick_post(ic, o2) && match o2 { Some(v) => discharge_post(before, v@, after), None => after == before },
        Err(_) => after == before,
    }
}
/// A-REWRITE: `calls.iter().flat_map(f1).flat_map(f2).fold(init, f3)` where f1 yields a Result (iterated: its Ok value, or nothing)
/// and f2 an Option: every element in order goes through f1, an Ok result through f2, a Some result is folded in by f3.  The ghost
/// results name f1's / f2's answers and the accumulator before each element.
#[verifier::external_body]
pub fn verif_flat2_fold<F1: Fn(&IdentiCall) -> TypeResult<IdentiCall>, F2: Fn(IdentiCall) -> Option<String>, F3: Fn(Environment, String) -> Environment>(
        calls: &Vec<IdentiCall>, f1: F1, f2: F2, init: Environment, f3: F3)
    -> (r: (Environment, Ghost<Seq<TypeResult<IdentiCall>>>, Ghost<Seq<Option<String>>>, Ghost<Seq<Environment>>))
    requires forall|c: IdentiCall| #[trigger] f1.requires((&c,)), forall|ic: IdentiCall| #[trigger] f2.requires((ic,)), forall|e: Environment, v: String| #[trigger] f3.requires((e, v)),
        forall|c: IdentiCall, o: TypeResult<IdentiCall>| #[trigger] f1.ensures((&c,), o) ==> strip_post(c, o),
        forall|ic: IdentiCall, o: Option<String>| #[trigger] f2.ensures((ic,), o) ==> pick_post(ic, o),
        forall|e: Environment, v: String, o: Environment| #[trigger] f3.ensures((e, v), o) ==> discharge_post(e, v@, o),
    ensures ({ let o1 = r.1@; let o2 = r.2@; let es = r.3@; let n = calls@.len() as int;
        o1.len() == n && o2.len() == n && es.len() == n + 1 && es[0] == init && r.0 == es[n]
        && forall|k: int| 0 <= k < n ==> chain_step(calls@[k], o1[k], o2[k], #[trigger] es[k], es[k + 1]) }),
{ unimplemented!() }
/// the fold discharges exactly the directly assigned fields of self and touches nothing else
pub proof fn lemma_chain_discharges(calls: Seq<IdentiCall>, o1: Seq<TypeResult<IdentiCall>>, o2: Seq<Option<String>>, es: Seq<Environment>, n: int)
    requires o1.len() == calls.len(), o2.len() == calls.len(), es.len() == calls.len() + 1, 0 <= n <= calls.len(),
        forall|k: int| 0 <= k < calls.len() ==> chain_step(calls[k], o1[k], o2[k], #[trigger] es[k], es[k + 1]),
    ensures es[n] == (Environment { unassigned: es[n].unassigned, ..es[0] }), hss(es[n].unassigned) =~= hss(es[0].unassigned).difference(self_fields(calls, n)),
    decreases n
{
    if n > 0 {
        lemma_chain_discharges(calls, o1, o2, es, n - 1);
        assert(chain_step(calls[n - 1], o1[n - 1], o2[n - 1], es[n - 1], es[n]));
    }
}

// ---- property_call (C09: a constructor may not READ a field of self that is not assigned yet) ---------------------------------
/// OUTLINED `instance.last().ok_or_else(|| vec![..])`
#[verifier::external_body]
pub fn verif_last_or_err<'a>(instance: &'a Vec<AST>, pos: Position) -> (r: TypeResult<&'a AST>)
    ensures r matches Ok(a) ==> instance@.len() >= 1 && *a == instance@.last(), r is Err ==> r->Err_0@.len() >= 1,
{ unimplemented!() }
/// OUTLINED `[last_inst.clone()].iter().chain(args).map(Expected::from).collect()`: receiver first, then the arguments
#[verifier::external_body]
pub fn verif_call_args(last_inst: &AST, args: &Vec<AST>) -> (r: Vec<Expected>) ensures r@.len() == args@.len() + 1 { unimplemented!() }
/// OUTLINED `instance.iter().rfold(property.clone(), |acc, ast| AST::new(ast.pos, PropertyCall { .. }))`: the whole access chain as one node
#[verifier::external_body]
pub fn verif_fold_chain(instance: &Vec<AST>, last: AST) -> AST { unimplemented!() }
/// OUTLINED `match instance.len().cmp(&1) { Less => panic!(..), Equal => last_inst.clone(), Greater => { remove last; rfold } }`:
/// the receiver chain without the accessed member (A-EXT: `instance` is never empty here — verif_last_or_err succeeded)
#[verifier::external_body]
pub fn verif_without_access(instance: &mut Vec<AST>) -> AST { unimplemented!() }
impl HashSet<String> {
    #[verifier::external_body]
    pub fn contains(&self, x: &String) -> (r: bool) ensures r == hss(*self).contains(x@) { unimplemented!() }
}
impl Position {
    #[verifier::external_body]
    pub fn union(&self, other: Position) -> Position { unimplemented!() }
}

/// the member read is a not yet assigned field of `self`
pub open spec fn reads_unassigned_self_field(last: AST, property: AST, env: Environment) -> bool {
    property.node matches Node::Id { lit } && last.node matches Node::Id { lit: recv } && recv@ == "self"@ && hss(env.unassigned).contains(lit@)
}

#[verifier::exec_allows_no_decreases_clause]
//@@ FN src/check/constrain/generate/call.rs | free | property_call | props=C09,C03
//@@ REPLACE pin=ac6a55a2ca5f
//@@< instance.last().ok_or_else($$)
//@@> verif_last_or_err(instance, property.pos)
//@@ REPLACE
//@@< instance == arg::SELF
//@@> verif_string_is(instance, SELF)
//@@ REPLACE
//@@< [last_inst.clone()] .iter() .chain(args) .map(Expected::from) .collect()
//@@> verif_call_args(last_inst, args)
//@@ REPLACE pin=9da0bee489d3
//@@< instance.iter().rfold(property.clone(), $$)
//@@> verif_fold_chain(instance, property.clone())
//@@ REPLACE pin=2b16feab9ee0
//@@< match instance.len().cmp(&1) { $$ }
//@@> verif_without_access(instance)
    ensures
        mono(*old(constr), *final(constr)), grows(*old(constr), *final(constr)), //# nothing_is_forgotten [C09]
        (old(instance)@.len() >= 1 && reads_unassigned_self_field(old(instance)@.last(), *property, *env)) ==> r is Err, //# read_of_an_unassigned_field_of_self_is_refused [C09]
        r matches Ok(e) ==> e == *env,                                           //# an_access_defines_nothing [C09]
        r is Err ==> r->Err_0@.len() >= 1,                                       //# rejection_carries_a_diagnostic [-]
//@@ END

pub open spec fn call_post(ast: AST, env: Environment, ctx: Context, r: Constrained, b0: ConstrBuilder, b1: ConstrBuilder) -> bool {
    match ast.node {
        Node::Reassign { left, right, op } => r is Ok ==> (
            // the target is an identifier chain and passes the mutability test in the CURRENT environment
            reassignable(*left) matches Some(id) && iden_mut_ok(id, env, b0.var_mapping)
            && (op == NodeOp::Assign ==> (r matches Ok(e)
                // `target >= value` is recorded; both sides are checked; only constructor-field bookkeeping changes
                && has(b1, exp_of(*left), exp_of(*right))
                && e == (Environment { unassigned: e.unassigned, ..env })
                // exactly the fields of self the target assigns directly (`self.x := ..`) are discharged (constructor bookkeeping)
                && hss(e.unassigned) =~= hss(env.unassigned).difference(self_fields(calls_of(id), calls_of(id).len() as int))
                && seen(b1, *right, e) && seen(b1, *left, e)))
            // a compound assignment is checked as the plain assignment it stands for (same target: the tests above apply again)
            && (op != NodeOp::Assign ==> (r matches Ok(e) && e == env
                && (desugared(ast, *left, *right, op) matches Some(d) && seen(b1, d, env))))),
        Node::FunctionCall { name, args } => r matches Ok(e) ==> e == env
            // every argument is checked in the caller's environment
            && (forall|i: int| 0 <= i < args@.len() ==> seen(b1, #[trigger] args@[i], env))
            // a function that is neither print nor a local value is looked up in the context: parameters, result, raises
            // (the lookup uses the global mapping as it is AFTER the arguments were visited: stated for every mapping)
            && ((sn_of(*name) != print_name() && forall|g: VarMapping| !visible(env, g, sn_of(*name).name@)) ==> (
                params_post(ctx_fun(ctx, sn_of(*name)).arguments@, actuals(ast.pos, None, args@), ctx, b1)
                && has(b1, exp_of(ast), type_exp(ast.pos, ctx_fun(ctx, sn_of(*name)).ret_ty))
                && (!env.in_fun || all_covered(ctx, hs(ctx_fun(ctx, sn_of(*name)).raises.names), hs(env.raises_caught))))),
        Node::PropertyCall { .. } => true,
        Node::Index { .. } => true,
        _ => r is Err,
    }
}

//@@ FN src/check/constrain/generate/call.rs | free | gen_call | props=C07,C05,C08,C09,C03
//@@ REPLACE deep
//@@< let env_assigned_to: Environment = identifier .all_calls() .iter() .flat_map(|call| $$) .flat_map(|identi_call| $$) .fold(env.clone(), |env, self_var| $$);
//@@> let verif_calls = identifier.all_calls(); let (env_assigned_to, Ghost(verif_o1), Ghost(verif_o2), Ghost(verif_es)) = verif_flat2_fold(&verif_calls, |call: &IdentiCall| -> (o: TypeResult<IdentiCall>) ensures /*# a_target_counts_only_through_its_chain_without_a_leading_self [C09] #*/ strip_post(*call, o), { $$1 }, |identi_call: IdentiCall| -> (o: Option<String>) ensures /*# only_a_direct_field_of_self_is_discharged [C09] #*/ pick_post(identi_call, o), { $$2 }, env.clone(), |env: Environment, self_var: String| -> (o: Environment) ensures /*# discharging_removes_exactly_that_field [C09] #*/ discharge_post(env, self_var@, o), { $$3 }); proof { lemma_chain_discharges(verif_calls@, verif_o1, verif_o2, verif_es, verif_calls@.len() as int); }
//@@ REPLACE
//@@< f_name == StringName::from(function::PRINT)
//@@> verif_is_print(&f_name)
//@@ REPLACE pin=5ce014525064
//@@< args.iter() .map($$) .for_each($$);
//@@> verif_havoc_print_constraints(args, env, constr);
//@@ REPLACE pin=cf8733860c97
//@@< for (_, $fe) in functions { $$ }
//@@> verif_havoc_local_function_loop(functions, args, env, constr);
    ensures
        mono(*old(constr), *final(constr)), grows(*old(constr), *final(constr)), //# nothing_is_forgotten [C07,C05,C08]
        call_post(*ast, *env, *ctx, r, *old(constr), *final(constr)),            //# reassignments_are_tested_first_and_context_calls_are_fully_constrained [C07,C05,C08,C09]
        r is Err ==> r->Err_0@.len() >= 1,                                       //# rejection_carries_a_diagnostic [-]
//@@ END

} // verus!

fn main() {}
