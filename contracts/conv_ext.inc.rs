#[verifier::external_type_specification] pub struct ExPosition(Position);
#[verifier::external_type_specification] pub struct ExCaretPos(CaretPos);
#[verifier::external_type_specification] pub struct ExASTTy(ASTTy);
#[verifier::external_type_specification] pub struct ExNodeTy(NodeTy);
#[verifier::external_type_specification] pub struct ExNodeOp(NodeOp);
#[verifier::external_type_specification] pub struct ExCore(Core);
#[verifier::external_type_specification] pub struct ExCoreOp(CoreOp);
#[verifier::external_type_specification] pub struct ExCoreFunOp(CoreFunOp);
#[verifier::external_type_specification] pub struct ExStringName(StringName);
#[verifier::external_type_specification] pub struct ExState(State);
#[verifier::external_type_specification] #[verifier::external_body] pub struct ExName(Name);
#[verifier::external_type_specification] #[verifier::external_body] pub struct ExContext(Context);
#[verifier::external_type_specification] #[verifier::external_body] pub struct ExImports(Imports);
#[verifier::external_type_specification] #[verifier::external_body] pub struct ExUnimplementedErr(UnimplementedErr);

// A-STD / A-DERIVE
pub assume_specification<'a>[<String as From<&'a str>>::from](s: &str) -> (r: String) ensures r@ == s@;
pub assume_specification<T>[<Box<T> as From<T>>::from](t: T) -> (r: Box<T>) ensures *r == t;
pub assume_specification<T: ?Sized, A: core::alloc::Allocator>[<Box<T, A> as AsRef<T>>::as_ref](b: &Box<T, A>) -> (r: &T) ensures r == &**b;
pub assume_specification<T>[<Option<T> as From<T>>::from](t: T) -> (r: Option<T>) ensures r == Some(t);
pub assume_specification[<Core as Clone>::clone](t: &Core) -> (r: Core) ensures r == *t;
pub assume_specification[<State as Clone>::clone](t: &State) -> (r: State) ensures r == *t;
pub assume_specification[<Name as Clone>::clone](t: &Name) -> (r: Name) ensures r == *t;
pub assume_specification[<ASTTy as Clone>::clone](t: &ASTTy) -> (r: ASTTy) ensures r == *t;
pub assume_specification[<Core as PartialEq>::eq](a: &Core, b: &Core) -> (r: bool) ensures r == (*a == *b);

/// text dropped by the format! rewrite
#[verifier::external_body] pub fn verif_opaque_string() -> String { unimplemented!() }
/// value of an expression the verifier cannot take (no postcondition: arbitrary value)
#[verifier::external_body] pub fn verif_havoc<T>() -> T { unimplemented!() }
