// shared by units IDENT (where the real functions are verified against these definitions) and GENCALL (where they are used)
/// the chain without its leading `object.`: None if the chain does not start with that name (or is a bare name)
pub open spec fn stripped(c: IdentiCall, object: Seq<char>) -> Option<IdentiCall>
    decreases c
{
    match c {
        IdentiCall::Iden(_) => None,
        IdentiCall::Call(obj, call) => match *obj {
            IdentiCall::Iden(s) => if s@ == object { Some(*call) } else { None },
            IdentiCall::Call(_, _) => match stripped(*obj, object) { Some(o2) => Some(IdentiCall::Call(Box::new(o2), call)), None => None },
        },
    }
}
/// the access chains of a pattern, leaf by leaf, in order
pub open spec fn calls_of(i: Identifier) -> Seq<IdentiCall>
    decreases i
{
    match i {
        Identifier::Single(_, call) => seq![call],
        Identifier::Multi(ids) => calls_all(ids@, ids@.len() as int),
    }
}
pub open spec fn calls_all(ids: Seq<Identifier>, n: int) -> Seq<IdentiCall>
    decreases ids, n
{
    if n <= 0 || n > ids.len() { Seq::empty() } else { calls_all(ids, n - 1) + calls_of(ids[n - 1]) }
}
