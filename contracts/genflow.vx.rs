//@@ UNIT GENFLOW
//@@ RLIMIT 20
// Unit GENFLOW — the environment side of the checker's constraint generator: which names are visible where (C09),
// which exception classes may legally propagate where (C08).
//   src/check/constrain/generate/env.rs           every method of Environment (real bodies; std HashMap/HashSet are
//                                                 replaced by stand-ins with ASSUMED map/set contracts, A-STD-COLL)
//   src/check/constrain/generate/mod.rs           gen_vec        (statement sequencing)
//   src/check/constrain/generate/control_flow.rs  gen_flow, constrain_cases
//   src/check/constrain/generate/expression.rs    gen_expr, match_id (identifier lookup)
//   src/check/constrain/generate/resources.rs     gen_resources
// The recursive callee `generate` is EXTERNAL with a ghost VISIT LOG on the constraint builder: every successful call
// records (node, environment it was checked in, environment it returned).  The contracts below say which children
// are visited under which environment and what environment comes back — the local steps of the induction "every
// use is checked against exactly the definitions that precede it on all paths"; the induction itself is not
// mechanised.
#![allow(unused_imports, dead_code, unused_variables, non_snake_case, unused_mut)]
use vstd::prelude::*;
use std::convert::TryFrom;
use std::marker::PhantomData;
use std::ops::Deref;
use crate::Node::Id;
use vstd::std_specs::iter::IteratorSpec;

//@@ DEFINE ENV_REAL
//@@ INCLUDE gen_types.inc.rs
pub struct Identifier { _x: u8 }
/// partial stand-in: the one public field the generator reads directly is real, the rest is opaque
pub struct ClassRest { _x: u8 }
/// partial stand-in for check::context::field::Field (named ClassField here: `Field` is also a variant of Expect): the three
/// fields the generator reads are real, the rest is opaque
pub struct FieldRest { _x: u8 }
pub struct ClassField { pub name: String, pub ty: Name, pub assigned_to: bool, pub verif_rest: FieldRest }
pub struct Class { pub parents: HashSet<TrueName>, pub fields: HashSet<ClassField>, pub verif_rest: ClassRest }

verus! {

//@@ INCLUDE gen_model.inc.rs

// ---- further /repo functions with ASSUMED contracts in this unit (bodies pinned) ------------------------------------------------
//@@ ASSUME src/check/ident.rs | impl Identifier | fields
//@@ ASSUME src/check/ident.rs | impl Identifier | as_mutable
//@@ ASSUME src/check/ident.rs | impl TryFrom<&AST> for Identifier | try_from
//@@ ASSUME src/check/name/mod.rs | free | match_name
//@@ ASSUME src/check/constrain/generate/collection.rs | free | gen_col
//@@ ASSUME src/check/constrain/generate/collection.rs | free | gen_col_items
//@@ ASSUME src/check/context/clss/mod.rs | impl LookupClass<&StringName, Class> for Context | class
//@@ ASSUME src/check/context/clss/mod.rs | impl LookupClass<&TrueName, Class> for Context | class
//@@ ASSUME src/check/context/clss/mod.rs | impl HasParent<&Name> for Class | has_parent
//@@ ASSUME src/check/context/clss/mod.rs | impl HasParent<&TrueName> for Class | has_parent
//@@ ASSUME src/check/name/mod.rs | impl Nullable for Name | is_nullable
// ---- gen_vec: statement sequencing (C09 "the environment returned by a statement is carried to the next") ---------------
/// envs[i] is the environment before statement i; statement i is visited in it (or in `env` when nothing is carried)
/// and returns envs[i + 1]
pub open spec fn chain(asts: Seq<AST>, envs: Seq<Environment>, env: Environment, carry: bool, b: ConstrBuilder) -> bool {
    &&& envs.len() == asts.len() + 1
    &&& envs[0] == env
    &&& forall|i: int| 0 <= i < asts.len() ==> visited(b, #[trigger] asts[i], if carry { envs[i] } else { env }, envs[i + 1])
}

//@@ FN src/check/constrain/generate/mod.rs | free | gen_vec | props=C09,C08,C07,C03
//@@ HINT before
//@@< let (mut asts, mut inner_env) = $$;
//@@> let ghost all: Seq<AST> = asts@;
//@@ HINT after
//@@< let last = asts.pop();
//@@> let ghost front: Seq<AST> = asts@; let ghost mut envs: Seq<Environment> = seq![*env];
//@@ ITERNAME
//@@< for ast in asts
//@@> for ast in vit: asts
//@@ LOOPINV
//@@< for ast in asts
//@@> invariant vit.history@ + vit.iter.remaining() == front, vit.history@.len() == vit.index@, vit.index@ <= front.len(), envs.len() == vit.index@ + 1, envs[0] == *env, inner_env == envs.last(), mono(*old(constr), *constr),
//@@ INVCLAIM
//@@< for ast in asts
//@@> forall|i: int| 0 <= i < vit.index@ ==> visited(*constr, #[trigger] front[i], if carry_env { envs[i] } else { *env }, envs[i + 1]), //# loop_every_statement_so_far_was_checked_in_the_environment_its_predecessor_returned [C09,C08,C07]
//@@ HINT after
//@@< inner_env = generate(&ast, $$)?;
//@@> proof { envs = envs.push(inner_env); }
//@@ HINT after
//@@< inner_env = generate(&last, $$)?;
//@@> proof { envs = envs.push(inner_env); }
//@@ HINT before
//@@< Ok(if carry_env { $$ } else { $$ })
//@@> proof { if last is Some { assert(all =~= front.push(last.unwrap())); } else { assert(all =~= front); } }
//@@ CLAIM before
//@@< Ok(if carry_env { $$ } else { $$ })
//@@> assert(chain(all, envs, *env, carry_env, *constr));  //# the_recorded_environments_form_the_chain [C09,C08,C07]
    ensures
        mono(*old(constr), *final(constr)),                  //# visits_are_never_forgotten [C09,C08]
        r matches Ok(e) ==> exists|envs: Seq<Environment>| chain(asts@, envs, *env, carry_env, *final(constr))
            && e == (if carry_env { envs.last() } else { *env }),                //# every_statement_is_checked_in_the_environment_its_predecessor_returned [C09,C08,C07]
        r is Err ==> r->Err_0@.len() >= 1,                                       //# rejection_carries_a_diagnostic [-]
//@@ END


// ---- identifier lookup (C09 "a name that is not defined at that point is rejected") --------------------------------------
/// OUTLINED `a == "literal"` on &str (Verus has no str comparison): compares the texts
#[verifier::external_body]
pub fn verif_str_is(a: &str, b: &str) -> (r: bool) ensures r == (a@ == b@) { unimplemented!() }
/// unit GENOP verifies this contract (and more) on the real body of gen_primitive; here it is assumed (assume-guarantee;
/// GENOP is a unit of every property that uses GENFLOW)
#[verifier::external_body]
pub fn gen_primitive(ast: &AST, ty: &str, env: &Environment, constr: &mut ConstrBuilder) -> (r: Constrained)
    ensures mono(*old(constr), *final(constr)), r is Err ==> r->Err_0@.len() >= 1,
{ unimplemented!() }
/// definitions (unit GENDEF proves what id_from_var RECORDS; here: what it does to the environment is assumed — it only
/// defines names: flags, caught set, return type, class and constructor bookkeeping are the caller's)
pub open spec fn defines_only(env: Environment, e: Environment) -> bool {
    e == (Environment { vars: e.vars, var_mapping: e.var_mapping, ..env })
}
/// ghost DEFINITION LOG: (pattern, declared type, mutable flag, environment it extends) of every id_from_var call so far
pub uninterp spec fn defs(b: ConstrBuilder) -> Set<(AST, Option<Name>, bool, Environment, Environment)>;
pub open spec fn defined(b: ConstrBuilder, var: AST, ty: Option<Name>, mutable: bool, e_in: Environment, e_out: Environment) -> bool {
    defs(b).contains((var, ty, mutable, e_in, e_out))
}
#[verifier::external_body]
pub fn id_from_var(var: &AST, ty: &Option<Name>, expr: &Option<Box<AST>>, mutable: bool, ctx: &Context, constr: &mut ConstrBuilder, env: &Environment) -> (r: Constrained)
    ensures mono(*old(constr), *final(constr)), r is Err ==> r->Err_0@.len() >= 1,
        r matches Ok(e) ==> defines_only(*env, e) && defined(*final(constr), *var, *ty, mutable, *env, e),
        forall|a: AST, t: Option<Name>, m: bool, i: Environment, o: Environment| defined(*old(constr), a, t, m, i, o) ==> defined(*final(constr), a, t, m, i, o),
{ unimplemented!() }

// ---- constrain_args: function parameters as definitions (C07: the `mutable` flag of a parameter is what is recorded;
// ---- C09: parameters are defined in order, each in the environment its predecessor returned) -----------------------------------
pub uninterp spec fn self_node() -> Node;
pub uninterp spec fn name_of_class(c: StringName) -> Name;
/// OUTLINED `var.node == Node::new_self()`
#[verifier::external_body]
pub fn verif_is_self(n: &Node) -> (r: bool) ensures r == (*n == self_node()) { unimplemented!() }
/// OUTLINED `opt.ok_or_else(|| TypeErr::new(pos, ".."))` (+ the conversion `?` applies to the single error)
#[verifier::external_body]
pub fn verif_ok_or_err<T>(o: Option<T>, pos: Position) -> (r: TypeResult<T>)
    ensures o matches Some(t) ==> r == Ok::<T, Vec<TypeErr>>(t), o is None ==> r is Err && r->Err_0@.len() >= 1,
{ unimplemented!() }
impl From<&StringName> for Name {
    #[verifier::external_body]
    fn from(c: &StringName) -> (r: Name) ensures r == name_of_class(*c) { unimplemented!() }
}
/// parameter i is defined with ITS OWN mutability flag and declared type, in the environment parameter i-1 returned
pub open spec fn arg_defined(arg: AST, e_in: Environment, e_out: Environment, cls: Option<StringName>, b: ConstrBuilder) -> bool {
    match arg.node {
        Node::FunArg { vararg, mutable, var, ty, default } => exists|t: Option<Name>| #[trigger] defined(b, *var, t, mutable, e_in, e_out)
            && (ty matches Some(tt) ==> t == Some(name_of(*tt)))
            && (ty is None ==> (if var.node == self_node() { cls matches Some(c) && t == Some(name_of_class(c)) } else { t is None })),
        _ => false,
    }
}
pub open spec fn args_chain(args: Seq<AST>, envs: Seq<Environment>, env0: Environment, cls: Option<StringName>, b: ConstrBuilder) -> bool {
    &&& envs.len() == args.len() + 1
    &&& envs[0] == env0
    &&& forall|i: int| 0 <= i < args.len() ==> arg_defined(#[trigger] args[i], envs[i], envs[i + 1], cls, b)
}

//@@ FN src/check/constrain/generate/definition.rs | free | constrain_args | props=C07,C09,C03
//@@ REPLACE
//@@< var.node == Node::new_self()
//@@> verif_is_self(&var.node)
//@@ REPLACE pin=f390ac01383c
//@@< env.class.clone().ok_or_else($$)
//@@> verif_ok_or_err(env.class.clone(), var.pos)
//@@ HINT after
//@@< let mut $ewa = env.is_expr(true);
//@@> let ghost mut envs: Seq<Environment> = seq![$ewa];
//@@ ITERNAME
//@@< for arg in args
//@@> for arg in ait: args
//@@ LOOPINV
//@@< for arg in args
//@@> invariant mono(*old(constr), *constr), envs.len() == ait.index@ + 1, envs[0] == (Environment { is_expr: true, ..*env }), $ewa == envs.last(), defines_only(Environment { is_expr: true, ..*env }, $ewa), forall|a: AST, t: Option<Name>, m: bool, i: Environment, o: Environment| defined(*old(constr), a, t, m, i, o) ==> defined(*constr, a, t, m, i, o),
//@@ INVCLAIM
//@@< for arg in args
//@@> forall|i: int| 0 <= i < ait.index@ ==> arg_defined(#[trigger] args@[i], envs[i], envs[i + 1], env.class, *constr), //# loop_every_parameter_so_far_is_defined_with_its_own_flag_and_type [C07,C09]
//@@ HINT after count=2
//@@< $ewa = id_from_var($$)?
//@@> ; proof { envs = envs.push($ewa); }
//@@ CLAIM before
//@@< Ok($ewa.is_expr($$))
//@@> assert(args_chain(args@, envs, Environment { is_expr: true, ..*env }, env.class, *constr));  //# the_recorded_environments_form_the_parameter_chain [C07,C09]
    ensures
        mono(*old(constr), *final(constr)),                                      //# visits_are_never_forgotten [C09]
        r matches Ok(e) ==> exists|envs: Seq<Environment>| args_chain(args@, envs, Environment { is_expr: true, ..*env }, env.class, *final(constr))
            && e == (Environment { is_expr: env.is_expr, ..envs.last() }),       //# parameters_are_defined_in_order_each_with_its_own_flag [C07,C09]
        // defining parameters defines names only (what gen_def relies on for the caught set)
        r matches Ok(e) ==> defines_only(*env, e),                               //# parameters_only_define_names [C08,C09]
        r is Err ==> r->Err_0@.len() >= 1,                                       //# rejection_carries_a_diagnostic [-]
//@@ END

// ---- id_from_var, environment side (C07: the flag recorded for a defined name is `declared mutable && pattern mutable`;
// ---- C09: every name the pattern binds is inserted, in order; nothing else changes).  What it RECORDS as constraints is
// ---- unit GENDEF's subject; the function is extracted a second time here as id_from_var_env, with the other model ----------
/// the entries of match_name's result for a typed pattern / the fields of the identifier otherwise (both are iterator code
/// over the Identifier: functions of it)
pub uninterp spec fn ent_seq(i: Identifier, ty: Name) -> Seq<(String, (bool, Name))>;
pub uninterp spec fn fld_seq(i: Identifier) -> Seq<(bool, String)>;
pub uninterp spec fn map_entries(m: HashMap<String, (bool, Name)>) -> Seq<(String, (bool, Name))>;
impl Identifier {
    #[verifier::external_body]
    pub fn as_mutable(&self, mutable: bool) -> Identifier { unimplemented!() }
}
#[verifier::external_body]
pub fn match_name(identifier: &Identifier, name: &Name, pos: Position) -> (r: TypeResult<HashMap<String, (bool, Name)>>)
    ensures r matches Ok(m) ==> map_entries(m) == ent_seq(*identifier, *name), r is Err ==> r->Err_0@.len() >= 1,
{ unimplemented!() }
/// A-STD-COLL: iterating a HashMap by value yields its entries (in the map's own order)
#[verifier::external_body]
pub fn verif_entries(m: HashMap<String, (bool, Name)>) -> (r: Vec<(String, (bool, Name))>)
    ensures r@ == map_entries(m),
{ unimplemented!() }
/// the fields of the (as_mutable'd) identifier; A-EXT: at least one (the code's own `panic!("cannot have empty identifier")`)
#[verifier::external_body]
pub fn verif_fields(i: &Identifier, pos: Position) -> (r: TypeResult<Vec<(bool, String)>>)
    ensures r matches Ok(v) ==> v@.len() >= 1 && v@ == fld_seq(*i), r is Err ==> r->Err_0@.len() >= 1,
{ unimplemented!() }
/// HAVOCKED: `for (i, (expr, ty)) in enumerate(elements.iter().zip(&temp_names)) { .. constr.add(..) }` (itertools): only adds
#[verifier::external_body]
pub fn verif_havoc_tuple_elements(elements: &Vec<AST>, temp_names: &Vec<Name>, env: &Environment, constr: &mut ConstrBuilder)
    ensures mono(*old(constr), *final(constr)),
{ unimplemented!() }
impl Name {
    #[verifier::external_body]
    pub fn tuple(names: &[Name]) -> Name { unimplemented!() }
}

/// one insertion: exactly what Environment::insert_var (proved above) does, with `flag` as the recorded mutability
pub open spec fn ins(e_in: Environment, flag: bool, name: Seq<char>, e_out: Environment) -> bool {
    exists|g: VarMapping, s: HashSet<(bool, Expected)>, x: Expected|
        e_out == (Environment { vars: e_out.vars, var_mapping: e_out.var_mapping, ..e_in })
        && hm(e_out.var_mapping) == hm(e_in.var_mapping).insert(name, next_offset(e_in, g, name) as usize)
        && hs(s) == set![(flag, x)]
        && #[trigger] hm(e_out.vars) == hm(e_in.vars).insert(fmt_var(name, next_offset(e_in, g, name) as usize), s)
}
pub open spec fn ins_chain(items: Seq<(bool, Seq<char>)>, envs: Seq<Environment>, e0: Environment, mutable: bool, n: int) -> bool {
    &&& envs.len() == n + 1
    &&& envs[0] == e0
    &&& forall|k: int| 0 <= k < n ==> ins(envs[k], mutable && (#[trigger] items[k]).0, items[k].1, envs[k + 1])
}

/// the environments of a definition form the chain of insertions of exactly the names the pattern binds, in order, each
/// recorded with `declared mutable && pattern mutable`
pub open spec fn def_chain(i: Identifier, ty: Option<Name>, envs: Seq<Environment>, e0: Environment, mutable: bool) -> bool {
    match ty {
        Some(t) => envs.len() == ent_seq(i, t).len() + 1 && envs[0] == e0
            && forall|k: int| 0 <= k < ent_seq(i, t).len() ==> ins(envs[k], mutable && (#[trigger] ent_seq(i, t)[k]).1.0, ent_seq(i, t)[k].0@, envs[k + 1]),
        None => envs.len() == fld_seq(i).len() + 1 && envs[0] == e0
            && forall|k: int| 0 <= k < fld_seq(i).len() ==> ins(envs[k], mutable && (#[trigger] fld_seq(i)[k]).0, fld_seq(i)[k].1@, envs[k + 1]),
    }
}

#[verifier::loop_isolation(false)]
//@@ FN src/check/constrain/generate/definition.rs | free | id_from_var | as=id_from_var_env | props=C07,C09,C03
//@@ REPLACE count=2
//@@< for ($fname, ($fmut, $name)) in match_name($$)?
//@@> for ($fname, ($fmut, $name)) in mit: verif_entries(match_name($$1)?)
//@@ REPLACE
//@@< let fields = identifier.fields(var.pos)?;
//@@> let fields = verif_fields(&identifier, var.pos)?;
//@@ REPLACE pin=521214f978e3
//@@< for ($i, ($e, $t)) in enumerate(elements.iter().zip(&temp_names)) { $$ }
//@@> verif_havoc_tuple_elements(elements, &temp_names, &env, constr);
//@@ HINT after
//@@< let identifier = Identifier::try_from(var)?.as_mutable(mutable);
//@@> let ghost e0g = env; let ghost mut envs: Seq<Environment> = seq![env]; let ghost idg = identifier;
//@@ LOOPINV count=2
//@@< for ($fname, ($fmut, $name)) in match_name($$)?
//@@> invariant mit.history@ + mit.iter.remaining() == ent_seq(idg, *ty), mit.history@.len() == mit.index@, mit.index@ <= ent_seq(idg, *ty).len(), mono(*old(constr), *constr), envs.len() == mit.index@ + 1, envs[0] == e0g, env == envs.last(), defines_only(e0g, env),
//@@ INVCLAIM count=2
//@@< for ($fname, ($fmut, $name)) in match_name($$)?
//@@> forall|k: int| 0 <= k < mit.index@ ==> ins(envs[k], mutable && (#[trigger] ent_seq(idg, *ty)[k]).1.0, ent_seq(idg, *ty)[k].0@, envs[k + 1]), //# loop_every_entry_so_far_is_inserted_with_declared_and_pattern_flag [C07,C09]
//@@ ITERNAME
//@@< for ($fm3, $nm3) in &fields
//@@> for ($fm3, $nm3) in fit3: &fields
//@@ LOOPINV
//@@< for ($fm3, $nm3) in &fields
//@@> invariant fields@ == fld_seq(idg), fit3.index@ <= fields@.len(), mono(*old(constr), *constr), envs.len() == fit3.index@ + 1, envs[0] == e0g, env == envs.last(), defines_only(e0g, env), temp_names@.len() == fit3.index@,
//@@ INVCLAIM
//@@< for ($fm3, $nm3) in &fields
//@@> forall|k: int| 0 <= k < fit3.index@ ==> ins(envs[k], mutable && (#[trigger] fld_seq(idg)[k]).0, fld_seq(idg)[k].1@, envs[k + 1]), //# loop_every_field_so_far_is_inserted_with_declared_and_pattern_flag [C07,C09]
//@@ REPLACE
//@@< for ($fm4, $nm4) in identifier.fields(var.pos)?
//@@> for ($fm4, $nm4) in fit4: verif_fields(&identifier, var.pos)?
//@@ LOOPINV
//@@< for ($fm4, $nm4) in identifier.fields(var.pos)?
//@@> invariant fit4.history@ + fit4.iter.remaining() == fld_seq(idg), fit4.history@.len() == fit4.index@, fit4.index@ <= fld_seq(idg).len(), mono(*old(constr), *constr), envs.len() == fit4.index@ + 1, envs[0] == e0g, env == envs.last(), defines_only(e0g, env),
//@@ INVCLAIM
//@@< for ($fm4, $nm4) in identifier.fields(var.pos)?
//@@> forall|k: int| 0 <= k < fit4.index@ ==> ins(envs[k], mutable && (#[trigger] fld_seq(idg)[k]).0, fld_seq(idg)[k].1@, envs[k + 1]), //# loop_every_field_of_an_untyped_pattern_is_inserted_with_declared_and_pattern_flag [C07,C09]
//@@ CLAIM before
//@@< Ok(env) }
//@@> assert(def_chain(idg, *ty, envs, e0g, mutable));  //# the_recorded_environments_form_the_definition_chain [C07,C09]
//@@ HINT before count=4
//@@< env = env.insert_var($$, $$, $$, $$);
//@@> let ghost e_prev = env;
//@@ HINT after count=4
//@@< env = env.insert_var($$, $$, $$, $$);
//@@> proof { envs = envs.push(env); assert(ins(e_prev, $$1, ($$2)@, env)); }
    ensures
        mono(*old(constr), *final(constr)),                                      //# visits_are_never_forgotten [C09]
        r matches Ok(e) ==> defines_only(*env, e),                               //# a_definition_only_defines_names [C07,C08,C09]
        r matches Ok(e) ==> exists|i: Identifier, envs: Seq<Environment>| def_chain(i, *ty, envs, *env, mutable) && e == envs.last(), //# every_bound_name_is_inserted_in_order_with_declared_and_pattern_flag [C07,C09]
        r is Err ==> r->Err_0@.len() >= 1,                                       //# rejection_carries_a_diagnostic [-]
//@@ END

pub const BOOL: &'static str = "Bool";
pub open spec fn is_constant_name(lit: Seq<char>) -> bool { lit == "None"@ || lit == "True"@ || lit == "False"@ }

pub open spec fn id_post(ast: AST, env: Environment, global: VarMapping, r: Constrained) -> bool {
    match ast.node {
        Node::Id { lit } =>
            if is_constant_name(lit@) || env.is_def_mode { true }
            // `with` resources: the name is taken out of scope
            else if env.is_destruct_mode {
                r matches Ok(e) && e == (Environment { vars: e.vars, ..env }) && hm(e.vars) == hm(env.vars).remove(lit@)
            }
            // a USE: accepted iff the name is visible here, and a use changes nothing
            else { (r is Ok <==> visible(env, global, lit@)) && (r matches Ok(e) ==> e == env) },
        _ => r == Ok::<Environment, Vec<TypeErr>>(env),
    }
}

//@@ FN src/check/constrain/generate/expression.rs | free | match_id | props=C09,C03
//@@ REPLACE
//@@< lit.as_str() == "None"
//@@> verif_str_is(lit.as_str(), "None")
//@@ REPLACE
//@@< lit.as_str() == "True" || lit.as_str() == "False"
//@@> verif_str_is(lit.as_str(), "True") || verif_str_is(lit.as_str(), "False")
    ensures
        mono(*old(constr), *final(constr)),                  //# visits_are_never_forgotten [C09]
        id_post(*ast, *env, old(constr).var_mapping, r),                         //# a_use_is_accepted_iff_the_name_is_visible [C09]
        r is Err ==> r->Err_0@.len() >= 1,                                       //# rejection_carries_a_diagnostic [-]
//@@ END

pub open spec fn expr_post(ast: AST, env: Environment, b0: ConstrBuilder, b1: ConstrBuilder, r: Constrained) -> bool {
    match ast.node {
        Node::Id { lit } => id_post(ast, env, b0.var_mapping, r),
        Node::ExpressionType { expr, mutable, ty } => id_post(*expr, env, b0.var_mapping, r),
        // both sides of `a ? b` are checked here; nothing escapes
        Node::Question { left, right } => r matches Ok(e) ==> e == env && seen(b1, *left, env) && seen(b1, *right, env),
        // lambda parameters do not escape
        Node::AnonFun { args, body } => r matches Ok(e) ==> e == env,
        Node::Pass => r == Ok::<Environment, Vec<TypeErr>>(env),
        _ => r is Err,
    }
}

//@@ FN src/check/constrain/generate/expression.rs | free | gen_expr | props=C09,C03
    ensures
        mono(*old(constr), *final(constr)),                  //# visits_are_never_forgotten [C09]
        expr_post(*ast, *env, *old(constr), *final(constr), r),                  //# identifier_uses_go_through_the_lookup [C09]
        r is Err ==> r->Err_0@.len() >= 1,                                       //# rejection_carries_a_diagnostic [-]
//@@ END

// ---- branches, loops, match, handle (C09 scoping; C08 caught set) ----------------------------------------------------------
/// the exception classes the arms of a handle name (HAVOCKED closure chain over TrueName::try_from: a function of the arms)
pub uninterp spec fn arm_types(cases: Seq<AST>) -> Set<TrueName>;
#[verifier::external_body]
pub fn verif_havoc_arm_types(cases: &Vec<AST>) -> (r: TypeResult<HashSet<TrueName>>)
    ensures r matches Ok(s) ==> hs(s) == arm_types(cases@), r is Err ==> r->Err_0@.len() >= 1,
{ unimplemented!() }
// ---- constr_col_lookup: where a for-variable / comprehension variable is DEFINED (C09) -------------------------------------
#[verifier::external_type_specification] #[verifier::external_body] pub struct ExIdentifier(Identifier);
#[verifier::external_type_specification] #[verifier::external_body] pub struct ExClassRest(ClassRest);
#[verifier::external_type_specification] pub struct ExClass(Class);
#[verifier::external_type_specification] #[verifier::external_body] pub struct ExFieldRest(FieldRest);
#[verifier::external_type_specification] pub struct ExClassField(ClassField);
/// the (mutable, name) pairs an identifier pattern binds (Identifier::try_from + fields: iterator code; a function of
/// the pattern)
pub uninterp spec fn id_fields(a: AST) -> Seq<(bool, String)>;
pub uninterp spec fn idf(i: Identifier) -> Seq<(bool, String)>;
impl Identifier {
    #[verifier::external_body]
    pub fn try_from(a: &AST) -> (r: TypeResult<Identifier>) ensures r matches Ok(i) ==> idf(i) == id_fields(*a), r is Err ==> r->Err_0@.len() >= 1 { unimplemented!() }
    #[verifier::external_body]
    pub fn fields(&self, pos: Position) -> (r: TypeResult<Vec<(bool, String)>>) ensures r matches Ok(v) ==> v@ == idf(*self), r is Err ==> r->Err_0@.len() >= 1 { unimplemented!() }
}
impl StringName {
    #[verifier::external_body]
    pub fn from(s: &str) -> StringName { unimplemented!() }
}
impl Constraint {
    #[verifier::external_body]
    pub fn new(msg: &str, parent: &Expected, child: &Expected) -> Constraint { unimplemented!() }
}
impl Position {
    #[verifier::external_body]
    pub fn invisible() -> Position { unimplemented!() }
}
pub const ITER: &'static str = "__iter__";
pub const NEXT: &'static str = "__next__";
pub assume_specification<T>[<Box<T> as From<T>>::from](t: T) -> (r: Box<T>) ensures *r == t;

/// `name` is defined in `e` itself: `e` carries a shadowing offset for it and the entry that offset names — so it is
/// visible whatever the builder's global mapping says later (lemma_bound_is_visible)
pub open spec fn bound(e: Environment, name: Seq<char>) -> bool {
    hm(e.var_mapping).contains_key(name) && hm(e.vars).contains_key(fmt_var(name, hm(e.var_mapping)[name]))
}
pub proof fn lemma_bound_is_visible(e: Environment, g: VarMapping, name: Seq<char>)
    requires bound(e, name),
    ensures visible(e, g, name),
{
}
/// every name the pattern binds (the first n of them) is defined
pub open spec fn all_bound(e: Environment, fields: Seq<(bool, String)>, n: int) -> bool {
    forall|i: int| 0 <= i < n ==> bound(e, (#[trigger] fields[i]).1@)
}
/// nothing visible before is lost, nothing but names and shadowing map changes
pub open spec fn only_defines(env: Environment, e: Environment) -> bool {
    &&& e == (Environment { vars: e.vars, var_mapping: e.var_mapping, ..env })
    &&& forall|k: Seq<char>| hm(env.vars).contains_key(k) ==> hm(e.vars).contains_key(k)
    &&& forall|v: Seq<char>| hm(env.var_mapping).contains_key(v) ==> hm(e.var_mapping).contains_key(v)
}

//@@ FN src/check/constrain/generate/collection.rs | free | constr_col_lookup | props=C09,C03
//@@ ITERNAME
//@@< for (mutable, var) in
//@@> for (mutable, var) in fit:
//@@ HINT before
//@@< for (mutable, var) in
//@@> let ghost env0 = env; let ghost fs = id_fields(*lookup);
//@@ HINT before
//@@< env = env.insert_var($$);
//@@> let ghost e_prev = env; let ghost k = fit.index@; assert((mutable, var) == fs[k]);
//@@ HINT after
//@@< env = env.insert_var($$);
//@@> proof { assert(bound(env, var@)); assert forall|i: int| 0 <= i < k implies bound(env, (#[trigger] fs[i]).1@) by { assert(bound(e_prev, fs[i].1@)); } }
//@@ LOOPINV
//@@< for (mutable, var) in $$.fields($$)?
//@@> invariant fit.history@ + fit.iter.remaining() == fs, fit.history@.len() == fit.index@, fit.index@ <= fs.len(), mono(*old(constr), *constr), only_defines(env0, env),
//@@ INVCLAIM
//@@< for (mutable, var) in $$.fields($$)?
//@@> all_bound(env, fs, fit.index@), //# loop_every_name_bound_so_far_is_visible [C09]
    ensures
        mono(*old(constr), *final(constr)),                                      //# visits_are_never_forgotten [C09]
        r matches Ok(e) ==> only_defines(*env, e),                               //# lookup_only_defines [C09]
        r matches Ok(e) ==> all_bound(e, id_fields(*lookup), id_fields(*lookup).len() as int),   //# loop_variable_is_defined_for_the_body [C09]
        r is Err ==> r->Err_0@.len() >= 1,                                       //# rejection_carries_a_diagnostic [-]
//@@ END
/// OUTLINED `envs.into_iter().reduce(|e1, e2| e1.union(&e2))`: the union (see Environment::union) of all arm environments
#[verifier::external_body]
pub fn verif_union_all(envs: Vec<Environment>) -> (r: Option<Environment>)
    ensures r is None <==> envs@.len() == 0,
        r matches Some(u) ==> forall|x: Seq<char>| hss(u.unassigned).contains(x) <==> exists|i: int| 0 <= i < envs@.len() && hss(#[trigger] envs@[i].unassigned).contains(x),
{ unimplemented!() }

/// one arm: the pattern is checked in definition mode (it DEFINES the arm's variables), the body in the environment
/// the pattern returned, back in the caller's mode
pub open spec fn arm_ok(case: AST, env: Environment, ce: Environment, be: Environment, b: ConstrBuilder) -> bool {
    match case.node {
        Node::Case { cond, body } => visited(b, *cond, Environment { is_def_mode: true, ..env }, ce)
            && visited(b, *body, Environment { is_def_mode: env.is_def_mode, ..ce }, be),
        _ => false,
    }
}
/// a field counts as still unassigned after the arms iff it was unassigned before and is unassigned after SOME arm
pub open spec fn unassigned_after(env: Environment, bes: Seq<Environment>, e: Environment) -> bool {
    if bes.len() == 0 { e == env } else {
        forall|x: Seq<char>| hss(e.unassigned).contains(x)
            <==> (hss(env.unassigned).contains(x) && exists|i: int| 0 <= i < bes.len() && hss(#[trigger] bes[i].unassigned).contains(x))
    }
}
pub open spec fn cases_post(cases: Seq<AST>, env: Environment, e: Environment, b: ConstrBuilder) -> bool {
    // arm variables do not escape; the caught set, the modes and the visible names are the caller's
    &&& e == (Environment { unassigned: e.unassigned, ..env })
    &&& exists|ces: Seq<Environment>, bes: Seq<Environment>| ces.len() == cases.len() && bes.len() == cases.len()
            && (forall|i: int| 0 <= i < cases.len() ==> arm_ok(#[trigger] cases[i], env, ces[i], bes[i], b))
            && unassigned_after(env, bes, e)
}

#[verifier::loop_isolation(false)]
//@@ FN src/check/constrain/generate/control_flow.rs | free | constrain_cases | props=C09,C08,C07,C03
//@@ REPLACE
//@@< envs.into_iter().reduce(|$e1, $e2| $e1.union(&$e2))
//@@> verif_union_all(envs)
//@@ HINT after
//@@< let mut envs = vec![];
//@@> let ghost mut ces: Seq<Environment> = seq![];
//@@ ITERNAME
//@@< for case in cases
//@@> for case in cit: cases
//@@ LOOPINV
//@@< for case in cases
//@@> invariant envs@.len() == cit.index@, ces.len() == cit.index@, mono(*old(constr), *constr),
//@@ INVCLAIM
//@@< for case in cases
//@@> forall|i: int| 0 <= i < cit.index@ ==> arm_ok(#[trigger] cases@[i], *env, ces[i], envs@[i], *constr), //# loop_every_arm_so_far_was_checked_pattern_first_body_in_the_patterns_environment [C09,C08,C07]
//@@ HINT after
//@@< let cond_env = generate(cond, $$)?;
//@@> proof { ces = ces.push(cond_env); }
//@@ HINT before
//@@< let env_union = $$;
//@@> let ghost bes = envs@;
    ensures
        mono(*old(constr), *final(constr)),                  //# visits_are_never_forgotten [C09,C08]
        r matches Ok(e) ==> cases_post(cases@, *env, e, *final(constr)),         //# arm_variables_stay_in_their_arm [C09,C08,C07]
        r is Err ==> r->Err_0@.len() >= 1,                                       //# rejection_carries_a_diagnostic [-]
//@@ END

/// handle: the guarded expression may raise what the arms name; the arms and everything after the handle may not
pub open spec fn handle_post(ast: AST, env: Environment, r: Constrained, b: ConstrBuilder) -> bool {
    match ast.node {
        Node::Handle { expr_or_stmt, cases } => r matches Ok(e) ==> exists|g: Environment, o: Environment, outer: Environment|
            g == (Environment { raises_caught: g.raises_caught, ..env })
            && hs(g.raises_caught) == hs(env.raises_caught).union(arm_types(cases@))
            && #[trigger] visited(b, *expr_or_stmt, g, o)
            && outer == (Environment { raises_caught: outer.raises_caught, ..o })
            && hs(outer.raises_caught) == hs(env.raises_caught)
            && #[trigger] cases_post(cases@, outer, e, b),
        _ => true,
    }
}
pub open spec fn flow_post(ast: AST, env: Environment, r: Constrained, b: ConstrBuilder) -> bool {
    match ast.node {
        Node::Handle { expr_or_stmt, cases } => true,
        // if-else: condition and both arms are checked in the caller's environment; what the arms define stays inside;
        // a field is assigned afterwards iff it was before or is in BOTH arms
        Node::IfElse { cond, then, el: Some(el) } => r matches Ok(e) ==> seen(b, *cond, env)
            && exists|t: Environment, l: Environment| #[trigger] visited(b, *then, env, t) && #[trigger] visited(b, *el, env, l)
                && e == (Environment { unassigned: e.unassigned, ..env })
                && hss(e.unassigned) == hss(env.unassigned).intersect(hss(t.unassigned).union(hss(l.unassigned))),
        Node::IfElse { cond, then, el: None } => r matches Ok(e) ==> seen(b, *cond, env) && seen(b, *then, env) && e == env,
        Node::Case { .. } => r is Err,
        Node::Match { cond, cases } => r matches Ok(e) ==> exists|o: Environment| #[trigger] visited(b, *cond, env, o) && cases_post(cases@, o, e, b),
        // for: the loop variable is defined for the body only
        Node::For { expr, col, body } => r matches Ok(e) ==> e == env && seen(b, *col, env)
            && exists|l0: Environment, l: Environment| #[trigger] visited(b, *expr, l0, l) && !l0.is_def_mode
                && seen(b, *body, Environment { in_loop: true, ..l }),
        Node::While { cond, body } => r matches Ok(e) ==> e == env && seen(b, *cond, env) && seen(b, *body, Environment { in_loop: true, ..env }),
        Node::Break => (r is Ok <==> env.in_loop) && (r matches Ok(e) ==> e == env),
        Node::Continue => (r is Ok <==> env.in_loop) && (r matches Ok(e) ==> e == env),
        _ => r is Err,
    }
}

//@@ FN src/check/constrain/generate/control_flow.rs | free | gen_flow | props=C09,C08,C07,C03
//@@ REPLACE pin=9ecba00f18d7
//@@< let (raises, errs): (Vec<Result<_, _>>, Vec<Result<_, _>>) = cases $$ .partition(Result::is_ok); if !errs.is_empty() { $$ } let raises = raises.into_iter().map(Result::unwrap).collect();
//@@> let raises: HashSet<TrueName> = verif_havoc_arm_types(cases)?;
//@@ REPLACE
//@@< Node::Break | Node::Continue if $$ => $$, Node::Break | Node::Continue => $$,
//@@> Node::Break | Node::Continue => if $$1 { $$2 } else { $$3 }, /* guard folded into the arm: Verus 0.2026.09.13 rejects or-pattern + guard, and loses final(constr) in a match with guards */
//@@ HINT after
//@@< let $t = generate(then, $$, ctx, constr)?;
//@@> let ghost then_g = $t; let ghost then_in: Environment = *($$1); assert(visited(*constr, **then, then_in, then_g));
//@@ HINT after
//@@< let $ee = generate(el, $$, ctx, constr)?;
//@@> let ghost else_g = $ee; let ghost else_in: Environment = *($$1); assert(visited(*constr, **el, else_in, else_g)); assert(visited(*constr, **then, then_in, then_g));
//@@ HINT after
//@@< constr.reset_branches();
//@@> assert(visited(*constr, **el, else_in, else_g) && visited(*constr, **then, then_in, then_g));
//@@ HINT after
//@@< let $o = generate(cond, $$, ctx, constr)?;
//@@> let ghost cond_g = $o; let ghost cond_in: Environment = *($$1); assert(visited(*constr, **cond, cond_in, cond_g));
//@@ HINT before
//@@< let $lk = generate(expr, &$l0, $$)?;
//@@> let ghost l0g = $l0;
//@@ HINT after
//@@< let $lk = generate(expr, &$l0, $$)?;
//@@> let ghost l1g = $lk; assert(visited(*constr, **expr, l0g, l1g));
//@@ HINT after
//@@< generate(body, &$lk.in_loop(), $$)?;
//@@> assert(visited(*constr, **expr, l0g, l1g));
    ensures
        mono(*old(constr), *final(constr)),                  //# visits_are_never_forgotten [C09,C08]
        flow_post(*ast, *env, r, *final(constr)),                                //# definitions_in_branches_and_loops_do_not_escape [C09,C07]
        handle_post(*ast, *env, r, *final(constr)),                              //# handle_extends_the_caught_set_for_the_guarded_expression_only [C08]
        r is Err ==> r->Err_0@.len() >= 1,                                       //# rejection_carries_a_diagnostic [-]
//@@ END

// ---- collections and comprehensions (C09: a comprehension variable is visible inside the comprehension only) ------------------
/// gen_col / gen_col_items (temporaries, unions: fold closures): add constraints, return the environment unchanged (A-EXT)
#[verifier::external_body]
pub fn gen_col(collection: &AST, env: &Environment, constr: &mut ConstrBuilder) -> (r: Constrained)
    ensures mono(*old(constr), *final(constr)), r matches Ok(e) ==> e == *env, r is Err ==> r->Err_0@.len() >= 1,
{ unimplemented!() }
/// OUTLINED `conditions.strip_prefix(&[cond.clone()])`: the conditions after the first one
#[verifier::external_body]
pub fn verif_strip_first<'a>(conditions: &'a [AST]) -> (r: Option<&'a [AST]>)
    ensures r matches Some(rest) ==> rest@ == conditions@.skip(1),
{ unimplemented!() }
/// OUTLINED `elements.iter().flat_map(|(from, to)| [from.clone(), to.clone()]).collect()`: keys and values, in order
#[verifier::external_body]
pub fn verif_flatten_pairs(elements: &Vec<(AST, AST)>) -> (r: Vec<AST>) { unimplemented!() }
impl AST {
    #[verifier::external_body]
    pub fn new(pos: Position, node: Node) -> (r: AST) ensures r.pos == pos, r.node == node { unimplemented!() }
}

//@@ FN src/check/constrain/generate/collection.rs | free | retrieve_nested_builder_item | props=C09,C03
//@@ END

pub open spec fn builder_post(item: AST, pair: Option<&AST>, conditions: Seq<AST>, env: Environment, r: Constrained, b: ConstrBuilder) -> bool {
    if conditions.len() == 0 { r is Err } else {
        match conditions[0].node {
            Node::In { left, right } => r matches Ok(e) ==> exists|c: Environment|
                // the collection is read OUTSIDE the comprehension's scope, the variable is defined from the pattern, item,
                // second item and every further condition are checked where the variable is visible ...
                seen(b, *right, env) && all_bound(c, id_fields(*left), id_fields(*left).len() as int)
                && #[trigger] seen(b, item, c) && (pair matches Some(p) ==> seen(b, *p, c))
                // ... and the variable does not escape, unless the comprehension itself is a definition pattern
                && e == (if env.is_def_mode { c } else { env }),
            _ => r is Err,
        }
    }
}

#[verifier::loop_isolation(false)]
//@@ FN src/check/constrain/generate/collection.rs | free | gen_builder | props=C09,C03
//@@ REPLACE
//@@< conditions.strip_prefix(&[cond.clone()])
//@@> verif_strip_first(conditions)
//@@ HINT after
//@@< let $ce = constr_col_lookup($$)?;
//@@> let ghost c_g = $ce;
//@@ HINT after
//@@< generate(right, $$, ctx, constr)?;
//@@> let ghost right_in: Environment = *($$1); assert(seen(*constr, **right, right_in));
//@@ HINT after
//@@< generate(item, $$, ctx, constr)?;
//@@> let ghost item_in: Environment = *($$1); assert(seen(*constr, *item, item_in));
//@@ HINT before
//@@< Ok($$) } else { Err(
//@@> assert(cond == conditions@[0]); assert(seen(*constr, *item, item_in) && seen(*constr, **right, right_in));
//@@ HINT before
//@@< if let Some(conditions) = $$ { for
//@@> let ghost b_mid = *constr;
//@@ ITERNAME
//@@< for cond in conditions
//@@> for cond in cit2: conditions
//@@ LOOPINV
//@@< for cond in conditions
//@@> invariant mono(*old(constr), *constr), mono(b_mid, *constr),
    ensures
        mono(*old(constr), *final(constr)),                                      //# visits_are_never_forgotten [C09]
        builder_post(*item, pair, conditions@, *env, r, *final(constr)),         //# comprehension_variable_is_visible_inside_only [C09,C07]
        r is Err ==> r->Err_0@.len() >= 1,                                       //# rejection_carries_a_diagnostic [-]
//@@ END

pub open spec fn coll_post(ast: AST, env: Environment, r: Constrained, b: ConstrBuilder) -> bool {
    match ast.node {
        Node::Set { elements } => r matches Ok(e) ==> e == env && forall|i: int| 0 <= i < elements@.len() ==> seen(b, #[trigger] elements@[i], env),
        Node::List { elements } => r matches Ok(e) ==> e == env && forall|i: int| 0 <= i < elements@.len() ==> seen(b, #[trigger] elements@[i], env),
        Node::Dict { elements } => r matches Ok(e) ==> e == env,
        // a tuple is a definition pattern in definition mode (its names are carried out), a value otherwise
        Node::Tuple { elements } => r matches Ok(e) ==> (!env.is_def_mode ==> e == env),
        Node::DictBuilder { from, to, conditions } => r matches Ok(e) ==> (!env.is_def_mode ==> e == env),
        Node::SetBuilder { item, conditions } => r matches Ok(e) ==> (!env.is_def_mode ==> e == env),
        Node::ListBuilder { item, conditions } => r matches Ok(e) ==> (!env.is_def_mode ==> e == env),
        _ => r is Err,
    }
}

//@@ FN src/check/constrain/generate/collection.rs | free | gen_coll | props=C09,C03
//@@ REPLACE
//@@< elements .iter() .flat_map(|($f, $t)| [$f.clone(), $t.clone()]) .collect()
//@@> verif_flatten_pairs(elements)
    ensures
        mono(*old(constr), *final(constr)),                                      //# visits_are_never_forgotten [C09]
        coll_post(*ast, *env, r, *final(constr)),                                //# collection_elements_are_checked_here_and_nothing_escapes [C09]
        r is Err ==> r->Err_0@.len() >= 1,                                       //# rejection_carries_a_diagnostic [-]
//@@ END

// ---- with (C09: the alias is visible in the body only) -------------------------------------------------------------------
pub open spec fn with_post(ast: AST, env: Environment, r: Constrained, b: ConstrBuilder) -> bool {
    match ast.node {
        Node::With { resource, alias: Some(al), expr } => r matches Ok(e) ==> e == env
            && seen(b, *resource, Environment { is_destruct_mode: true, ..env })
            && exists|a: Environment| !a.is_def_mode && seen(b, *expr, a),
        Node::With { resource, alias: None, expr } => r matches Ok(e) ==> e == env
            && exists|o: Environment| #[trigger] visited(b, *resource, env, o) && seen(b, *expr, o),
        _ => r is Err,
    }
}

//@@ FN src/check/constrain/generate/resources.rs | free | gen_resources | props=C09,C03
    ensures
        mono(*old(constr), *final(constr)),                  //# visits_are_never_forgotten [C09]
        with_post(*ast, *env, r, *final(constr)),                                //# alias_is_visible_in_the_body_only [C09,C07]
        r is Err ==> r->Err_0@.len() >= 1,                                       //# rejection_carries_a_diagnostic [-]
//@@ END

// ---- function definitions (C08: declared raises must be Exceptions and are caught inside the body; C09: a function's names
// ---- stay inside) -----------------------------------------------------------------------------------------------------------
/// A-EXT (class hierarchy, Class::has_parent — a recursive walk over Context): `a` is the class `c` itself or one of its
/// ancestors, for a class name / for a (possibly union) Name
pub uninterp spec fn anc(ctx: Context, c: TrueName, a: TrueName) -> bool;
pub uninterp spec fn name_anc(ctx: Context, c: TrueName, a: Name) -> bool;
pub uninterp spec fn class_known(ctx: Context, n: TrueName) -> bool;
pub uninterp spec fn cls_of(c: Class) -> TrueName;
pub uninterp spec fn exception_name() -> Name;
/// the class `n` has `Exception` among its ancestors
pub open spec fn is_exception(ctx: Context, n: TrueName) -> bool { name_anc(ctx, n, exception_name()) }
/// what Context::class accepts as a key (the real code overloads the trait for &TrueName and &StringName)
pub trait ClassKey { spec fn ckey(&self) -> TrueName; }
impl ClassKey for TrueName { open spec fn ckey(&self) -> TrueName { *self } }
pub uninterp spec fn sn_key(n: StringName) -> TrueName;
impl ClassKey for StringName { open spec fn ckey(&self) -> TrueName { sn_key(*self) } }
/// A-EXT: the class a key denotes in a context (a function of both)
pub uninterp spec fn ctx_class(ctx: Context, k: TrueName) -> Class;
impl Context {
    #[verifier::external_body]
    pub fn class<Q: ClassKey>(&self, n: &Q, pos: Position) -> (r: TypeResult<Class>)
        ensures r is Ok <==> class_known(*self, n.ckey()), r matches Ok(c) ==> cls_of(c) == n.ckey() && c == ctx_class(*self, n.ckey()), r is Err ==> r->Err_0@.len() >= 1,
    { unimplemented!() }
}
// ---- which fields a constructor has to assign (C09) ---------------------------------------------------------------------------
pub uninterp spec fn hsf(s: HashSet<ClassField>) -> Set<ClassField>;
impl Class {
    #[verifier::external_body] pub fn clone(&self) -> (r: Class) ensures r == *self { unimplemented!() }
}
impl HashSet<ClassField> {
    #[verifier::external_body]
    pub fn contains(&self, x: &ClassField) -> (r: bool) ensures r == hsf(*self).contains(*x) { unimplemented!() }
}
pub uninterp spec fn name_nullable(n: Name) -> bool;
impl Name {
    #[verifier::external_body]
    pub fn is_nullable(&self) -> (r: bool) ensures r == name_nullable(*self) { unimplemented!() }
}
/// a parent class (as the context knows it) already has this field
pub open spec fn inherited(ctx: Context, c: Class, f: ClassField) -> bool {
    exists|p: TrueName| hs(c.parents).contains(p) && hsf((#[trigger] ctx_class(ctx, p)).fields).contains(f)
}
/// the rule (read off the checker's diagnostic `Non nullable attribute .. not assigned to in constructor`; the docs do not state
/// it): a constructor has to assign every field the class ITSELF declares (not one a parent already has) whose type does not
/// admit None and which has no default value
pub open spec fn has_to_assign(ctx: Context, c: Class, f: ClassField) -> bool {
    hsf(c.fields).contains(f) && !inherited(ctx, c, f) && !name_nullable(f.ty) && !f.assigned_to
}
pub open spec fn has_to_assign_name(ctx: Context, c: Class, n: Seq<char>) -> bool {
    exists|f: ClassField| #[trigger] has_to_assign(ctx, c, f) && f.name@ == n
}
/// A-REWRITE: `set.iter().map(f).collect::<TypeResult<Vec<_>>>()`: Ok with f's result for every member iff f succeeds on all
#[verifier::external_body]
pub fn verif_parents_try<F: Fn(&TrueName) -> TypeResult<Class>>(set: &HashSet<TrueName>, f: F, Ghost(val): Ghost<spec_fn(TrueName) -> Class>) -> (r: TypeResult<Vec<Class>>)
    requires forall|n: TrueName| #[trigger] f.requires((&n,)),
        forall|n: TrueName, o: TypeResult<Class>| #[trigger] f.ensures((&n,), o) ==> (o matches Ok(c) ==> c == val(n)) && (o is Err ==> o->Err_0@.len() >= 1),
    ensures r matches Ok(v) ==> (forall|k: int| 0 <= k < v@.len() ==> exists|n: TrueName| hs(*set).contains(n) && #[trigger] v@[k] == val(n))
            && (forall|n: TrueName| hs(*set).contains(n) ==> exists|k: int| 0 <= k < v@.len() && #[trigger] v@[k] == val(n)),
        r is Err ==> r->Err_0@.len() >= 1,
{ unimplemented!() }
/// A-REWRITE: `v.iter().any(f)`
#[verifier::external_body]
pub fn verif_any_class<F: Fn(&Class) -> bool>(v: &Vec<Class>, f: F, Ghost(pred): Ghost<spec_fn(Class) -> bool>) -> (r: bool)
    requires forall|c: Class| #[trigger] f.requires((&c,)),
        forall|c: Class, b: bool| #[trigger] f.ensures((&c,), b) ==> b == pred(c),
    ensures r == (exists|k: int| 0 <= k < v@.len() && pred(#[trigger] v@[k])),
{ unimplemented!() }
/// A-REWRITE: `set.iter().filter(f1).filter(f2).collect::<Vec<&ClassField>>()`: the members both keep, each once
#[verifier::external_body]
pub fn verif_filter2_collect<'a, F1: Fn(&&ClassField) -> bool, F2: Fn(&&ClassField) -> bool>(set: &'a HashSet<ClassField>, f1: F1, f2: F2, Ghost(p1): Ghost<spec_fn(ClassField) -> bool>, Ghost(p2): Ghost<spec_fn(ClassField) -> bool>) -> (r: Vec<&'a ClassField>)
    requires forall|x: ClassField| #[trigger] f1.requires((&&x,)), forall|x: ClassField| #[trigger] f2.requires((&&x,)),
        forall|x: ClassField, b: bool| #[trigger] f1.ensures((&&x,), b) ==> b == p1(x),
        forall|x: ClassField, b: bool| #[trigger] f2.ensures((&&x,), b) ==> b == p2(x),
    ensures (forall|k: int| 0 <= k < r@.len() ==> hsf(*set).contains(*#[trigger] r@[k]) && p1(*r@[k]) && p2(*r@[k])),
        (forall|x: ClassField| hsf(*set).contains(x) && p1(x) && p2(x) ==> exists|k: int| 0 <= k < r@.len() && *#[trigger] r@[k] == x),
{ unimplemented!() }
/// OUTLINED `fields.iter().map(|f| f.name.clone()).collect::<HashSet<String>>()`: the set of their names
#[verifier::external_body]
pub fn verif_field_names(fields: &Vec<&ClassField>) -> (r: HashSet<String>)
    ensures forall|n: Seq<char>| hss(r).contains(n) <==> exists|k: int| 0 <= k < fields@.len() && (#[trigger] fields@[k]).name@ == n,
{ unimplemented!() }
/// what Class::has_parent accepts as the ancestor to look for (the real code overloads the trait for &TrueName and &Name)
pub trait ParentLike { spec fn is_anc(&self, ctx: Context, c: TrueName) -> bool; }
impl ParentLike for TrueName { open spec fn is_anc(&self, ctx: Context, c: TrueName) -> bool { anc(ctx, c, *self) } }
impl ParentLike for Name { open spec fn is_anc(&self, ctx: Context, c: TrueName) -> bool { name_anc(ctx, c, *self) } }
impl Class {
    #[verifier::external_body]
    pub fn has_parent<Q: ParentLike>(&self, name: &Q, ctx: &Context, pos: Position) -> (r: TypeResult<bool>)
        ensures r matches Ok(b) ==> b == name.is_anc(*ctx, cls_of(*self)), r is Err ==> r->Err_0@.len() >= 1,
    { unimplemented!() }
}
/// OUTLINED `Name::from(clss::EXCEPTION)`
#[verifier::external_body]
pub fn verif_exception_name() -> (r: Name) ensures r == exception_name() { unimplemented!() }
/// the definition is the constructor of a class: it is called `init` and sits in a class
pub open spec fn is_ctor(id: AST, env: Environment) -> bool {
    (id.node matches Node::Id { lit } && lit@ == INIT@) && env.class is Some
}
/// the class whose constructor it is, as the context knows it
pub open spec fn ctor_class(env: Environment, ctx: Context) -> Class {
    match env.class { Some(sn) => ctx_class(ctx, sn_key(sn)), None => arbitrary() }
}
/// A-REWRITE: `set.iter().map(f).collect::<Vec<String>>()`: one message per member — none iff the set is empty
#[verifier::external_body]
pub fn verif_set_map_collect<F: Fn(&String) -> String>(s: &HashSet<String>, f: F) -> (r: Vec<String>)
    requires forall|x: String| #[trigger] f.requires((&x,)),
    ensures r@.len() == 0 <==> hss(*s) =~= Set::<Seq<char>>::empty(),
{ unimplemented!() }
/// OUTLINED `msgs.iter().map(|msg| TypeErr::new(pos, msg)).collect()`: one diagnostic per message
#[verifier::external_body]
pub fn verif_errs_of(msgs: &Vec<String>, pos: Position) -> (r: Vec<TypeErr>) ensures r@.len() == msgs@.len() { unimplemented!() }
/// the classes a `raise [..]` clause names: TrueName::try_from per entry (OUTLINED map / partition / flat_map chain: the
/// entries with their positions, or the conversion errors)
pub uninterp spec fn declared(raises: Seq<AST>) -> Seq<TrueName>;
/// the set of classes of the entries that converted (what `.map(|(_, r)| r.unwrap()).collect()` collects)
pub uninterp spec fn ok_names(v: Seq<(Position, TypeResult<TrueName>)>) -> Set<TrueName>;
#[verifier::external_body]
pub fn verif_declared_raises(raises: &Vec<AST>) -> (r: TypeResult<Vec<(Position, TypeResult<TrueName>)>>)
    ensures r matches Ok(v) ==> v@.len() == declared(raises@).len() && (forall|i: int| 0 <= i < v@.len() ==> (#[trigger] v@[i]).1 == Ok::<TrueName, Vec<TypeErr>>(declared(raises@)[i]))
            && (forall|n: TrueName| ok_names(v@).contains(n) <==> declared(raises@).contains(n)) /* all entries are Ok: the collected set is the set of declared classes */,
        r is Err ==> r->Err_0@.len() >= 1,
{ unimplemented!() }
/// OUTLINED `raises.into_iter().map(|(_, r)| r.unwrap()).collect()`: the set of the declared classes
#[verifier::external_body]
pub fn verif_collect_raises(raises: Vec<(Position, TypeResult<TrueName>)>) -> (r: HashSet<TrueName>)
    ensures hs(r) == ok_names(raises@),
{ unimplemented!() }
pub assume_specification[<TrueName as Clone>::clone](t: &TrueName) -> (r: TrueName) ensures r == *t;
pub assume_specification<T: Clone, E: Clone>[<Result<T, E> as Clone>::clone](t: &Result<T, E>) -> (r: Result<T, E>) ensures (*t matches Ok(x) ==> r matches Ok(y) && cloned(x, y)), (*t is Err ==> r is Err);
pub const INIT: &'static str = "init";

/// the environment a function body is checked in
pub open spec fn body_env_ok(be: Environment, env: Environment, raises: Seq<AST>, ret: Option<Box<AST>>) -> bool {
    // inside a function; may raise what the caller's context already covers plus exactly the DECLARED classes
    &&& be.in_fun
    &&& forall|n: TrueName| hs(be.raises_caught).contains(n) <==> (hs(env.raises_caught).contains(n) || declared(raises).contains(n))
    // a declared return type makes the body an expression with that return type
    &&& (ret is Some ==> be.return_type is Some && be.is_expr)
}
pub open spec fn fundef_post(ast: AST, env: Environment, ctx: Context, r: Constrained, b: ConstrBuilder) -> bool {
    match ast.node {
        Node::FunDef { id, args, ret, raises, body, pure } => r matches Ok(e) ==> (
            // nothing defined inside (parameters, locals) is visible after the definition
            e == env
            // only subclasses of Exception may be declared
            && (forall|i: int| 0 <= i < declared(raises@).len() ==> is_exception(ctx, #[trigger] declared(raises@)[i]))
            && (body matches Some(bd) ==> exists|be: Environment| #[trigger] seen(b, *bd, be) && body_env_ok(be, env, raises@, ret))
            // a constructor: its body starts with exactly the fields it has to assign marked unassigned, and it is accepted only
            // if none is left at the end of the body (assignments discharge them: unit GENCALL; reads of them are rejected)
            && (is_ctor(*id, env) ==> match body {
                Some(bd) => exists|be: Environment, out: Environment| #[trigger] visited(b, *bd, be, out)
                    && (forall|n: Seq<char>| hss(be.unassigned).contains(n) <==> has_to_assign_name(ctx, ctor_class(env, ctx), n)) && hss(out.unassigned) =~= Set::<Seq<char>>::empty(),
                None => forall|n: Seq<char>| !has_to_assign_name(ctx, ctor_class(env, ctx), n),
            })),
        Node::FunArg { .. } => r is Err,
        _ => true,
    }
}

#[verifier::loop_isolation(false)]
//@@ FN src/check/constrain/generate/definition.rs | free | gen_def | props=C08,C09,C03
//@@ REPLACE
//@@< Id { lit } if *lit == INIT =>
//@@> Id { lit } if verif_str_is(lit.as_str(), INIT) =>
//@@ REPLACE deep
//@@< class .parents .iter() .map(|p| $$) .collect::<TypeResult<_>>()?
//@@> verif_parents_try(&class.parents, |p: &TrueName| -> (o: TypeResult<Class>) ensures (o matches Ok(c) ==> c == ctx_class(*ctx, *p)) && (o is Err ==> o->Err_0@.len() >= 1), { $$1 }, Ghost(|n: TrueName| ctx_class(*ctx, n)))?
//@@ REPLACE deep
//@@< class .fields .iter() .filter(|f| $$) .filter(|f| $$) .collect()
//@@> verif_filter2_collect(&class.fields, |f: &&ClassField| -> (b: bool) ensures /*# a_field_a_parent_already_has_is_not_the_constructors_to_assign [C09] #*/ b == !inherited(*ctx, class, **f), { $$1 }, |f: &&ClassField| -> (b: bool) ensures /*# only_fields_that_do_not_admit_none_and_have_no_default_must_be_assigned [C09] #*/ b == (!name_nullable(f.ty) && !f.assigned_to), { $$2 }, Ghost(|x: ClassField| !inherited(*ctx, class, x)), Ghost(|x: ClassField| !name_nullable(x.ty) && !x.assigned_to))
//@@ REPLACE deep
//@@< parents.iter().any(|p| $$)
//@@> verif_any_class(&parents, |p: &Class| -> (b2: bool) ensures b2 == hsf(p.fields).contains(**f), { $$1 }, Ghost(|c: Class| hsf(c.fields).contains(**f)))
//@@ REPLACE
//@@< let fields: Vec<&Field> =
//@@> let fields: Vec<&ClassField> =
//@@ HINT after
//@@< let fields: Vec<&Field> = $$;
//@@> proof { assert forall|n: Seq<char>| (exists|k: int| 0 <= k < fields@.len() && (#[trigger] fields@[k]).name@ == n) <==> has_to_assign_name(*ctx, class, n) by { if exists|k: int| 0 <= k < fields@.len() && (#[trigger] fields@[k]).name@ == n { let k = choose|k: int| 0 <= k < fields@.len() && (#[trigger] fields@[k]).name@ == n; assert(has_to_assign(*ctx, class, *fields@[k])); } if has_to_assign_name(*ctx, class, n) { let f = choose|f: ClassField| #[trigger] has_to_assign(*ctx, class, f) && f.name@ == n; let k = choose|k: int| 0 <= k < fields@.len() && *#[trigger] fields@[k] == f; assert(fields@[k].name@ == n); } } }
//@@ HINT after
//@@< let (class, non_nullable_class_vars) = match &id.node { $$ };
//@@> proof { assert((class is Some) == is_ctor(**id, *env)); assert(is_ctor(**id, *env) ==> forall|n: Seq<char>| #![trigger hss(non_nullable_class_vars).contains(n)] #![trigger has_to_assign_name(*ctx, ctor_class(*env, *ctx), n)] hss(non_nullable_class_vars).contains(n) <==> has_to_assign_name(*ctx, ctor_class(*env, *ctx), n)); }
//@@ REPLACE
//@@< fields.iter().map(|f| f.name.clone()).collect()
//@@> verif_field_names(&fields)
//@@ REPLACE pin=42c4be3d849e
//@@< let (raises, errs): (Vec<(Position, _)>, Vec<_>) = raises $$ .partition($$); if !errs.is_empty() { $$ }
//@@> let raises_ast_g = Ghost(raises@); let raises = verif_declared_raises(raises)?;
//@@ REPLACE
//@@< Name::from(clss::EXCEPTION)
//@@> verif_exception_name()
//@@ REPLACE pin=9a346459be5e
//@@< raises.into_iter().map($$).collect()
//@@> verif_collect_raises(raises)
//@@ REPLACE deep
//@@< let unassigned: Vec<String> = $ue .unassigned .iter() .map(|v| $$) .collect();
//@@> let unassigned: Vec<String> = verif_set_map_collect(&$ue.unassigned, |v: &String| -> (verif_s: String) ensures true, { $$1 });
//@@ REPLACE
//@@< unassigned .iter() .map(|msg| TypeErr::new(id.pos, msg)) .collect()
//@@> verif_errs_of(&unassigned, id.pos)
//@@ ITERNAME
//@@< for (pos, raise) in &raises
//@@> for (pos, raise) in rit: &raises
//@@ HINT before
//@@< let $rz = raise.clone()?;
//@@> let ghost k = rit.index@; assert(*raise == raises@[k].1);
//@@ LOOPINV
//@@< for (pos, raise) in &raises
//@@> invariant mono(*old(constr), *constr), rit.index@ <= raises@.len(),
//@@ INVCLAIM
//@@< for (pos, raise) in &raises
//@@> forall|i: int| 0 <= i < rit.index@ ==> is_exception(*ctx, #[trigger] declared(raises_ast_g@)[i]), //# loop_every_declared_class_so_far_is_an_exception [C08]
    ensures
        mono(*old(constr), *final(constr)),                                      //# visits_are_never_forgotten [C09,C08]
        fundef_post(*ast, *env, *ctx, r, *final(constr)),                        //# declared_raises_are_exceptions_and_cover_the_body_only_and_a_constructor_assigns_all_it_must [C08,C09]
        r is Err ==> r->Err_0@.len() >= 1,                                       //# rejection_carries_a_diagnostic [-]
//@@ END

// ---- raise statements and the caught-set test (C08) ---------------------------------------------------------------------------
/// a raised class is COVERED by the caught set iff it is a known class and itself or one of its ancestors is a member of the set
/// (a has_parent query that fails counts as "no")
pub uninterp spec fn anc_q(ctx: Context, c: TrueName, a: TrueName) -> bool;   // the query has_parent(a) on class c answers Ok(true)
pub open spec fn covered(ctx: Context, n: TrueName, caught: Set<TrueName>) -> bool {
    class_known(ctx, n) && exists|a: TrueName| caught.contains(a) && #[trigger] anc_q(ctx, n, a)
}
pub open spec fn all_covered(ctx: Context, raises: Set<TrueName>, caught: Set<TrueName>) -> bool {
    forall|n: TrueName| raises.contains(n) ==> covered(ctx, n, caught)
}
/// the ancestor query with its failure mode: `has_parent(..).unwrap_or_default()`
#[verifier::external_body]
pub fn verif_has_parent_or_false(c: &Class, a: &TrueName, ctx: &Context, pos: Position) -> (r: bool)
    ensures r == anc_q(*ctx, cls_of(*c), *a),
{ unimplemented!() }
/// A-REWRITE: `set.iter().filter(f).map(g).collect::<Vec<_>>()` has one element per member that f keeps: empty iff f keeps none.
/// `pred` is a ghost name for "f keeps this member"; the caller must show that f's postcondition says so.
#[verifier::external_body]
pub fn verif_filter_collect<F: Fn(&&TrueName) -> bool>(set: &HashSet<TrueName>, f: F, pos: Position, Ghost(pred): Ghost<spec_fn(TrueName) -> bool>) -> (r: Vec<TypeErr>)
    requires forall|n: TrueName| #[trigger] f.requires((&&n,)),
        forall|n: TrueName, keep: bool| #[trigger] f.ensures((&&n,), keep) ==> keep == pred(n),
    ensures r@.len() == 0 <==> (forall|n: TrueName| hs(*set).contains(n) ==> !pred(n)),
{ unimplemented!() }
/// A-REWRITE: `set.iter().any(f)`: some member satisfies f
#[verifier::external_body]
pub fn verif_set_any<F: Fn(&TrueName) -> bool>(set: &HashSet<TrueName>, f: F, Ghost(pred): Ghost<spec_fn(TrueName) -> bool>) -> (r: bool)
    requires forall|n: TrueName| #[trigger] f.requires((&n,)),
        forall|n: TrueName, b: bool| #[trigger] f.ensures((&n,), b) ==> b == pred(n),
    ensures r == (exists|n: TrueName| #[trigger] hs(*set).contains(n) && pred(n)),
{ unimplemented!() }
/// the class a `raise Name(..)` statement names
pub uninterp spec fn tn_of(lit: Seq<char>) -> TrueName;
/// OUTLINED `HashSet::from_iter([TrueName::from(lit.as_str())])`
#[verifier::external_body]
pub fn verif_one_name(lit: &str) -> (r: HashSet<TrueName>) ensures hs(r) == set![tn_of(lit@)] { unimplemented!() }

//@@ FN src/check/constrain/generate/statement.rs | free | check_raises_caught | props=C08,C03
//@@ REPLACE deep pin=075d91aa1594
//@@< raises .iter() .filter(|$rn| $$) .map($$) .collect()
//@@> verif_filter_collect(raises, |$rn: &&TrueName| -> (keep: bool) ensures /*# a_raised_class_is_reported_iff_no_caught_class_is_among_its_ancestors [C08] #*/ keep == !covered(*ctx, **$rn, hs(env.raises_caught)), $$1, pos, Ghost(|n: TrueName| !covered(*ctx, n, hs(env.raises_caught))))
//@@ REPLACE deep optional
//@@< env.raises_caught.iter().any(|$er| $$)
//@@> verif_set_any(&env.raises_caught, |$er: &TrueName| -> (b: bool) ensures b == anc_q(*ctx, cls_of(raise_class), *$er), $$1, Ghost(|a: TrueName| anc_q(*ctx, cls_of(raise_class), a)))
//@@ REPLACE optional
//@@< raise_class .has_parent(env_raise, ctx, pos) .unwrap_or_default()
//@@> verif_has_parent_or_false(&raise_class, env_raise, ctx, pos)
    ensures
        // inside a function a raise is accepted iff every raised class is covered by the caught set; a script is unchecked
        r is Ok <==> (!env.in_fun || all_covered(*ctx, hs(*raises), hs(env.raises_caught))), //# raise_is_accepted_only_if_covered_by_the_caught_set [C08]
        r is Err ==> r->Err_0@.len() >= 1,                                       //# rejection_carries_a_diagnostic [-]
//@@ END

pub open spec fn raise_post(ast: AST, env: Environment, ctx: Context, r: Constrained) -> bool {
    match ast.node {
        Node::Raise { error } => match error.node {
            Node::FunctionCall { name, args } => match name.node {
                // `raise E(..)` in a function: E must be covered by what is declared or handled here
                Node::Id { lit } => (r is Ok <==> (!env.in_fun || covered(ctx, tn_of(lit@), hs(env.raises_caught))))
                    && (r matches Ok(e) ==> e == env),
                _ => r is Err,
            },
            _ => r is Err,
        },
        _ => true,
    }
}

//@@ FN src/check/constrain/generate/statement.rs | free | gen_stmt | props=C08,C03
//@@ REPLACE
//@@< HashSet::from_iter([TrueName::from(lit.as_str())])
//@@> verif_one_name(lit.as_str())
    ensures
        mono(*old(constr), *final(constr)),                                      //# visits_are_never_forgotten [C09,C08]
        raise_post(*ast, *env, *ctx, r),                                         //# raise_statement_is_checked_against_the_caught_set [C08]
        r is Err ==> r->Err_0@.len() >= 1,                                       //# rejection_carries_a_diagnostic [-]
//@@ END

} // verus!

fn main() {}
