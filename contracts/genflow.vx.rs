//@@ UNIT GENFLOW
//@@ RLIMIT 20
// Unit GENFLOW — the environment side of the checker's constraint generator: which names are visible where (C09),
// which exception classes may legally propagate where (C08).
//   src/check/constrain/generate/env.rs           every method of Environment (real bodies; std HashMap/HashSet are
//                                                 replaced by stand-ins with ASSUMED map/set contracts, A-STD-COLL)
//   src/check/constrain/generate/mod.rs           gen_vec        (statement sequencing)
//   src/check/constrain/generate/control_flow.rs  gen_flow, constrain_cases
//   src/check/constrain/generate/expression.rs    gen_expr, match_id (identifier lookup)
//   src/check/constrain/generate/resources.rs     gen_resources
// The recursive callee `generate` is EXTERNAL with a ghost VISIT LOG on the constraint builder: every successful call
// records (node, environment it was checked in, environment it returned).  The contracts below say which children
// are visited under which environment and what environment comes back — the local steps of the induction "every
// use is checked against exactly the definitions that precede it on all paths"; the induction itself is not
// mechanised.
#![allow(unused_imports, dead_code, unused_variables, non_snake_case, unused_mut)]
use vstd::prelude::*;
use std::convert::TryFrom;
use std::marker::PhantomData;
use vstd::std_specs::iter::IteratorSpec;

//@@ INCLUDE pos_types.inc.rs
//@@ TYPE src/parse/ast/mod.rs | struct | AST
//@@ TYPE src/parse/ast/mod.rs | type | OptAST
//@@ TYPE src/parse/ast/mod.rs | enum | Node
//@@ TYPE src/parse/ast/node_op.rs | enum | NodeOp

/// stand-ins for std::collections::{HashMap, HashSet}: same names, so the copied struct and signatures are verbatim
#[derive(Clone, Debug, Default)] pub struct HashMap<K, V> { _k: PhantomData<K>, _v: PhantomData<V> }
#[derive(Clone, Debug, Default)] pub struct HashSet<T> { _t: PhantomData<T> }
/// stand-in for the set-operation iterators (hash_set::Union / Intersection and Cloned<..> over them)
pub struct SetIter<T> { _t: PhantomData<T> }
pub type VarMapping = HashMap<String, usize>;

// opaque stand-ins
#[derive(Clone, Debug, Default, PartialEq, Eq, Hash)]
pub struct StringName { _x: u8 }
#[derive(Clone, Debug, Default, PartialEq, Eq, Hash)]
pub struct TrueName { _x: u8 }
#[derive(Clone, Debug, Default, PartialEq, Eq, Hash)]
pub struct Name { _x: u8 }
#[derive(Clone, Debug, Default, PartialEq, Eq, Hash)]
pub struct Expected { _x: u8 }
pub struct Constraint { _x: u8 }
//@@ TYPE src/check/constrain/constraint/expected.rs | enum | Expect
use crate::Expect::Type;
pub struct Context { _x: u8 }
pub struct TypeErr { _x: u8 }
pub struct ConstrBuilder { pub var_mapping: VarMapping }
//@@ TYPE src/check/constrain/generate/env.rs | struct | Environment
pub type TypeResult<T> = Result<T, Vec<TypeErr>>;
pub type Constrained<T = Environment> = Result<T, Vec<TypeErr>>;

verus! {

#[verifier::external_type_specification] pub struct ExPosition(Position);
#[verifier::external_type_specification] pub struct ExCaretPos(CaretPos);
#[verifier::external_type_specification] pub struct ExAST(AST);
#[verifier::external_type_specification] pub struct ExNode(Node);
#[verifier::external_type_specification] pub struct ExNodeOp(NodeOp);
#[verifier::external_type_specification] pub struct ExExpect(Expect);
#[verifier::external_type_specification] #[verifier::external_body] pub struct ExStringName(StringName);
#[verifier::external_type_specification] #[verifier::external_body] pub struct ExTrueName(TrueName);
#[verifier::external_type_specification] #[verifier::external_body] pub struct ExName(Name);
#[verifier::external_type_specification] #[verifier::external_body] pub struct ExExpected(Expected);
#[verifier::external_type_specification] #[verifier::external_body] pub struct ExConstraint(Constraint);
#[verifier::external_type_specification] #[verifier::external_body] pub struct ExContext(Context);
#[verifier::external_type_specification] #[verifier::external_body] pub struct ExTypeErr(TypeErr);
#[verifier::external_type_specification] #[verifier::external_body] #[verifier::accept_recursive_types(K)] #[verifier::accept_recursive_types(V)]
pub struct ExHashMap<K, V>(HashMap<K, V>);
#[verifier::external_type_specification] #[verifier::external_body] #[verifier::accept_recursive_types(T)]
pub struct ExHashSet<T>(HashSet<T>);
#[verifier::external_type_specification] #[verifier::external_body] #[verifier::accept_recursive_types(T)]
pub struct ExSetIter<T>(SetIter<T>);
#[verifier::external_type_specification] pub struct ExConstrBuilder(ConstrBuilder);
#[verifier::external_type_specification] pub struct ExEnvironment(Environment);

pub assume_specification[<Expected as Clone>::clone](t: &Expected) -> (r: Expected) ensures r == *t;
pub assume_specification[<StringName as Clone>::clone](t: &StringName) -> (r: StringName) ensures r == *t;
pub assume_specification[<Environment as Clone>::clone](t: &Environment) -> (r: Environment) ensures r == *t;
pub assume_specification[<AST as Clone>::clone](t: &AST) -> (r: AST) ensures r == *t;
pub assume_specification<K: Clone, V: Clone>[<HashMap<K, V> as Clone>::clone](t: &HashMap<K, V>) -> (r: HashMap<K, V>) ensures r == *t;
pub assume_specification<T: Clone>[<HashSet<T> as Clone>::clone](t: &HashSet<T>) -> (r: HashSet<T>) ensures r == *t;
pub assume_specification<'a>[<String as From<&'a str>>::from](s: &str) -> (r: String) ensures r@ == s@;
pub assume_specification<'a, T: Clone>[<Vec<T> as From<&'a [T]>>::from](s: &[T]) -> (r: Vec<T>) ensures r@ == s@;
#[verifier::external_body] pub fn verif_opaque_string() -> String { unimplemented!() }

// ---- A-STD-COLL: std HashMap / HashSet behave as finite maps / sets (keys are Strings, compared by their text) ----------
pub uninterp spec fn hm<V>(m: HashMap<String, V>) -> Map<Seq<char>, V>;
pub uninterp spec fn hs<T>(s: HashSet<T>) -> Set<T>;
/// a HashSet<String> as a set of texts
pub uninterp spec fn hss(s: HashSet<String>) -> Set<Seq<char>>;

pub trait KeyLike { spec fn key(&self) -> Seq<char>; }
impl KeyLike for str { open spec fn key(&self) -> Seq<char> { self@ } }
impl KeyLike for String { open spec fn key(&self) -> Seq<char> { self@ } }

impl<V> HashMap<String, V> {
    #[verifier::external_body]
    pub fn get<Q: KeyLike + ?Sized>(&self, k: &Q) -> (r: Option<&V>)
        ensures r matches Some(v) ==> hm(*self).contains_key(k.key()) && hm(*self)[k.key()] == *v,
            r is None ==> !hm(*self).contains_key(k.key()),
    { unimplemented!() }
    #[verifier::external_body]
    pub fn insert(&mut self, k: String, v: V) -> (r: Option<V>) ensures hm(*final(self)) == hm(*old(self)).insert(k@, v) { unimplemented!() }
    #[verifier::external_body]
    pub fn remove<Q: KeyLike + ?Sized>(&mut self, k: &Q) -> (r: Option<V>) ensures hm(*final(self)) == hm(*old(self)).remove(k.key()) { unimplemented!() }
}
/// the elements a set-operation iterator yields
pub uninterp spec fn si<T>(s: SetIter<T>) -> Set<T>;
pub uninterp spec fn sis(s: SetIter<String>) -> Set<Seq<char>>;
impl HashSet<String> {
    #[verifier::external_body]
    pub fn remove<Q: KeyLike + ?Sized>(&mut self, k: &Q) -> (r: bool) ensures hss(*final(self)) == hss(*old(self)).remove(k.key()) { unimplemented!() }
    #[verifier::external_body]
    pub fn union(&self, o: &HashSet<String>) -> (r: SetIter<String>) ensures sis(r) == hss(*self).union(hss(*o)) { unimplemented!() }
    #[verifier::external_body]
    pub fn intersection(&self, o: &HashSet<String>) -> (r: SetIter<String>) ensures sis(r) == hss(*self).intersect(hss(*o)) { unimplemented!() }
}
impl HashSet<TrueName> {
    #[verifier::external_body]
    pub fn union(&self, o: &HashSet<TrueName>) -> (r: SetIter<TrueName>) ensures si(r) == hs(*self).union(hs(*o)) { unimplemented!() }
}
impl<T> SetIter<T> {
    #[verifier::external_body]
    pub fn cloned(self) -> (r: SetIter<T>) ensures r == self { unimplemented!() }
}
impl SetIter<String> {
    #[verifier::external_body]
    pub fn collect(self) -> (r: HashSet<String>) ensures hss(r) == sis(self) { unimplemented!() }
}
impl SetIter<TrueName> {
    #[verifier::external_body]
    pub fn collect(self) -> (r: HashSet<TrueName>) ensures hs(r) == si(self) { unimplemented!() }
}
/// OUTLINED `vec![(mutable, expect.clone())].into_iter().collect::<HashSet<_>>()`
#[verifier::external_body]
pub fn verif_singleton(mutable: bool, expect: Expected) -> (r: HashSet<(bool, Expected)>) ensures hs(r) == set![(mutable, expect)] { unimplemented!() }
/// OUTLINED `self.vars.get(&var_name).cloned()`'s `.cloned()`
#[verifier::external_body]
pub fn verif_cloned<T: Clone>(o: Option<&T>) -> (r: Option<T>) ensures r == (match o { Some(t) => Some(*t), None => None }) { unimplemented!() }

/// A-FMT: format_var_map is a function of its arguments and the identity for offset 0 (the real body: String::from(var)
/// for 0, format!("{var}@{offset}") otherwise)
pub uninterp spec fn fmt_var(var: Seq<char>, off: usize) -> Seq<char>;
#[verifier::external_body]
pub fn format_var_map(var: &str, offset: &usize) -> (r: String)
    ensures r@ == fmt_var(var@, *offset), *offset == 0 ==> r@ == var@,
{ unimplemented!() }

// ---- Environment: specification -----------------------------------------------------------------------------------------
/// the key under which `var` is looked up: the environment's own shadowing offset wins over the builder's
pub open spec fn lookup_key(e: Environment, global: VarMapping, var: Seq<char>) -> Seq<char> {
    if hm(e.var_mapping).contains_key(var) { fmt_var(var, hm(e.var_mapping)[var]) }
    else if hm(global).contains_key(var) { fmt_var(var, hm(global)[var]) }
    else { var }
}
/// `var` is visible (defined) at this point
pub open spec fn visible(e: Environment, global: VarMapping, var: Seq<char>) -> bool {
    hm(e.vars).contains_key(lookup_key(e, global, var))
}
/// the shadowing offset a new definition of `var` gets
pub open spec fn next_offset(e: Environment, global: VarMapping, var: Seq<char>) -> int {
    if hm(e.var_mapping).contains_key(var) { hm(e.var_mapping)[var] + 1 }
    else if hm(global).contains_key(var) { hm(global)[var] as int }
    else { 0 }
}

impl Environment {
//@@ FN src/check/constrain/generate/env.rs | impl Environment | in_class
    ensures r == (Environment { class: Some(*class_name), ..*self }),            //# frame_only_class [C09,C08]
//@@ END
//@@ FN src/check/constrain/generate/env.rs | impl Environment | in_fun
    ensures r == (Environment { in_fun: in_fun, ..*self }),                      //# frame_only_in_fun [C09,C08]
//@@ END
//@@ FN src/check/constrain/generate/env.rs | impl Environment | is_def_mode
    ensures r == (Environment { is_def_mode: is_def_mode, ..*self }),            //# frame_only_is_def_mode [C09,C08]
//@@ END
//@@ FN src/check/constrain/generate/env.rs | impl Environment | is_destruct_mode
    ensures r == (Environment { is_destruct_mode: is_destruct_mode, ..*self }),  //# frame_only_is_destruct_mode [C09,C08]
//@@ END
//@@ FN src/check/constrain/generate/env.rs | impl Environment | is_expr
    ensures r == (Environment { is_expr: is_expr, ..*self }),                    //# frame_only_is_expr [C09,C08]
//@@ END
//@@ FN src/check/constrain/generate/env.rs | impl Environment | in_loop
    ensures r == (Environment { in_loop: true, ..*self }),                       //# frame_only_in_loop [C09,C08]
//@@ END
//@@ FN src/check/constrain/generate/env.rs | impl Environment | return_type
    ensures r == (Environment { return_type: Some(*return_type), ..*self }),     //# frame_only_return_type [C09,C08]
//@@ END
//@@ FN src/check/constrain/generate/env.rs | impl Environment | with_unassigned
    ensures r == (Environment { unassigned: unassigned, ..*self }),              //# frame_only_unassigned [C09,C08]
//@@ END
//@@ FN src/check/constrain/generate/env.rs | impl Environment | override_mapping
    ensures
        r == (Environment { var_mapping: r.var_mapping, ..*self }),              //# frame_only_var_mapping [C09,C08]
        hm(r.var_mapping) == hm(self.var_mapping).insert(var@, mapping),         //# mapping_is_overridden [C09]
//@@ END
//@@ FN src/check/constrain/generate/env.rs | impl Environment | get_var
//@@ REPLACE
//@@< self.vars.get(&var_name).cloned()
//@@> verif_cloned(self.vars.get(&var_name))
    ensures
        r is Some <==> visible(*self, *var_mapping, var@),                       //# lookup_succeeds_iff_visible [C09]
        r matches Some(s) ==> s == hm(self.vars)[lookup_key(*self, *var_mapping, var@)], //# lookup_returns_the_current_definition [C09]
//@@ END
//@@ FN src/check/constrain/generate/env.rs | impl Environment | insert_var
//@@ REPLACE
//@@< vec![(mutable, expect.clone())].into_iter().collect::<HashSet<_>>()
//@@> verif_singleton(mutable, expect.clone())
    requires next_offset(*self, *var_mapping, var@) <= usize::MAX,
    ensures
        r == (Environment { vars: r.vars, var_mapping: r.var_mapping, ..*self }), //# frame_only_vars_and_mapping [C09,C08]
        hm(r.var_mapping) == hm(self.var_mapping).insert(var@, next_offset(*self, *var_mapping, var@) as usize), //# new_definition_gets_the_next_offset [C09]
        exists|s: HashSet<(bool, Expected)>| hs(s) == set![(mutable, *expect)]
            && hm(r.vars) == hm(self.vars).insert(fmt_var(var@, next_offset(*self, *var_mapping, var@) as usize), s), //# new_definition_is_recorded_and_nothing_is_forgotten [C09]
//@@ END
//@@ FN src/check/constrain/generate/env.rs | impl Environment | remove_var
    ensures
        r == (Environment { vars: r.vars, ..*self }),                            //# frame_only_vars [C09,C08]
        hm(r.vars) == hm(self.vars).remove(var@),                                //# only_the_named_entry_is_removed [C09]
//@@ END
//@@ FN src/check/constrain/generate/env.rs | impl Environment | raises_caught
    ensures
        r == (Environment { raises_caught: r.raises_caught, ..*self }),          //# frame_only_raises_caught [C09,C08]
        hs(r.raises_caught) == hs(self.raises_caught).union(hs(*raises)),        //# caught_set_is_extended_by_exactly_the_given_classes [C08]
//@@ END
//@@ FN src/check/constrain/generate/env.rs | impl Environment | assigned_to
    ensures
        r == (Environment { unassigned: r.unassigned, ..*self }),                //# frame_only_unassigned [C09,C08]
        hss(r.unassigned) == hss(self.unassigned).remove(var@),                  //# only_the_assigned_field_is_discharged [C09]
//@@ END
//@@ FN src/check/constrain/generate/env.rs | impl Environment | union
    ensures
        r == (Environment { unassigned: r.unassigned, ..*self }),                //# frame_only_unassigned [C09,C08]
        hss(r.unassigned) == hss(self.unassigned).union(hss(other.unassigned)),  //# unassigned_in_either [C09]
//@@ END
//@@ FN src/check/constrain/generate/env.rs | impl Environment | intersection
    ensures
        r == (Environment { unassigned: r.unassigned, ..*self }),                //# frame_only_unassigned [C09,C08]
        hss(r.unassigned) == hss(self.unassigned).intersect(hss(other.unassigned)), //# unassigned_in_both [C09]
//@@ END
}

// ---- lemmas over the Environment contracts (C09) ------------------------------------------------------------------------
/// a definition makes the name visible to every later lookup, whatever the builder's global mapping, and the lookup
/// returns the NEW definition (shadowing)
pub proof fn lemma_definition_is_visible(e: Environment, r: Environment, global: VarMapping, later: VarMapping, var: Seq<char>, s: HashSet<(bool, Expected)>)
    requires
        next_offset(e, global, var) <= usize::MAX,
        hm(r.var_mapping) == hm(e.var_mapping).insert(var, next_offset(e, global, var) as usize),
        hm(r.vars) == hm(e.vars).insert(fmt_var(var, next_offset(e, global, var) as usize), s),
    ensures
        visible(r, later, var),
        hm(r.vars)[lookup_key(r, later, var)] == s,
{
}
/// ... and forgets no other name that was visible, as long as the other name's key is not the new key
pub proof fn lemma_definition_keeps_others(e: Environment, r: Environment, global: VarMapping, var: Seq<char>, other: Seq<char>, s: HashSet<(bool, Expected)>)
    requires
        next_offset(e, global, var) <= usize::MAX,
        other != var,
        hm(r.var_mapping) == hm(e.var_mapping).insert(var, next_offset(e, global, var) as usize),
        hm(r.vars) == hm(e.vars).insert(fmt_var(var, next_offset(e, global, var) as usize), s),
        visible(e, global, other),
    ensures
        visible(r, global, other),
{
}

// ---- the constraint builder and the recursive generator with the ghost VISIT LOG -------------------------------------------
/// the successful visits so far: (node, environment it was checked in, environment it returned)
pub uninterp spec fn visits(b: ConstrBuilder) -> Set<(AST, Environment, Environment)>;
pub open spec fn visited(b: ConstrBuilder, a: AST, e: Environment, o: Environment) -> bool { visits(b).contains((a, e, o)) }
pub open spec fn seen(b: ConstrBuilder, a: AST, e: Environment) -> bool { exists|o: Environment| visited(b, a, e, o) }
/// no visit is forgotten (the second and third conjunct are consequences of the first, stated for the solver)
pub open spec fn mono(a: ConstrBuilder, b: ConstrBuilder) -> bool {
    &&& visits(a).subset_of(visits(b))
    &&& forall|x: AST, e: Environment, o: Environment| visited(a, x, e, o) ==> visited(b, x, e, o)
    &&& forall|x: AST, e: Environment| seen(a, x, e) ==> seen(b, x, e)
}

impl Expected {
    #[verifier::external_body]
    pub fn new(pos: Position, expect: &Expect) -> (r: Expected) { unimplemented!() }
    #[verifier::external_body]
    pub fn none(pos: Position) -> Expected { unimplemented!() }
    #[verifier::external_body]
    pub fn any(pos: Position) -> Expected { unimplemented!() }
}
impl From<&AST> for Expected {
    #[verifier::external_body]
    fn from(a: &AST) -> (r: Expected) { unimplemented!() }
}
impl From<&Box<AST>> for Expected {
    #[verifier::external_body]
    fn from(a: &Box<AST>) -> (r: Expected) { unimplemented!() }
}
impl Constraint {
    #[verifier::external_body]
    pub fn truthy(msg: &str, expected: &Expected) -> Constraint { unimplemented!() }
    #[verifier::external_body]
    pub fn undefined(msg: &str, expected: &Expected) -> Constraint { unimplemented!() }
}
impl TypeErr {
    #[verifier::external_body]
    pub fn new(position: Position, msg: &str) -> TypeErr { unimplemented!() }
}
impl Name {
    #[verifier::external_body]
    pub fn try_from(a: &Box<AST>) -> (r: TypeResult<Name>) ensures r is Err ==> r->Err_0@.len() >= 1 { unimplemented!() }
}
impl ConstrBuilder {
    #[verifier::external_body]
    pub fn add(&mut self, msg: &str, parent: &Expected, child: &Expected, env: &Environment)
        ensures visits(*final(self)) == visits(*old(self)), final(self).var_mapping == old(self).var_mapping { unimplemented!() }
    #[verifier::external_body]
    pub fn add_constr(&mut self, constraint: &Constraint, env: &Environment)
        ensures visits(*final(self)) == visits(*old(self)), final(self).var_mapping == old(self).var_mapping { unimplemented!() }
    #[verifier::external_body]
    pub fn branch_point(&mut self)
        ensures visits(*final(self)) == visits(*old(self)), final(self).var_mapping == old(self).var_mapping { unimplemented!() }
    #[verifier::external_body]
    pub fn branch(&mut self, msg: &str, pos: Position)
        ensures visits(*final(self)) == visits(*old(self)), final(self).var_mapping == old(self).var_mapping { unimplemented!() }
    #[verifier::external_body]
    pub fn reset_branches(&mut self)
        ensures visits(*final(self)) == visits(*old(self)), final(self).var_mapping == old(self).var_mapping { unimplemented!() }
}
/// the recursive constraint generator (A-EXT): logs a successful visit, forgets none
#[verifier::external_body]
pub fn generate(ast: &AST, env: &Environment, ctx: &Context, constr: &mut ConstrBuilder) -> (r: Constrained)
    ensures
        mono(*old(constr), *final(constr)),
        r matches Ok(o) ==> visited(*final(constr), *ast, *env, o),
        r is Ok ==> seen(*final(constr), *ast, *env) /* consequence of the line above, stated for the solver (the Ok value is often discarded by the caller) */,
        r is Err ==> r->Err_0@.len() >= 1,
{ unimplemented!() }

// ---- gen_vec: statement sequencing (C09 "the environment returned by a statement is carried to the next") ---------------
/// envs[i] is the environment before statement i; statement i is visited in it (or in `env` when nothing is carried)
/// and returns envs[i + 1]
pub open spec fn chain(asts: Seq<AST>, envs: Seq<Environment>, env: Environment, carry: bool, b: ConstrBuilder) -> bool {
    &&& envs.len() == asts.len() + 1
    &&& envs[0] == env
    &&& forall|i: int| 0 <= i < asts.len() ==> visited(b, #[trigger] asts[i], if carry { envs[i] } else { env }, envs[i + 1])
}

//@@ FN src/check/constrain/generate/mod.rs | free | gen_vec | props=C09,C08,C03
//@@ HINT before
//@@< let (mut asts, mut inner_env) = $$;
//@@> let ghost all: Seq<AST> = asts@;
//@@ HINT after
//@@< let last = asts.pop();
//@@> let ghost front: Seq<AST> = asts@; let ghost mut envs: Seq<Environment> = seq![*env];
//@@ ITERNAME
//@@< for ast in asts
//@@> for ast in vit: asts
//@@ LOOPINV
//@@< for ast in asts
//@@> invariant vit.history@ + vit.iter.remaining() == front, vit.history@.len() == vit.index@, vit.index@ <= front.len(), envs.len() == vit.index@ + 1, envs[0] == *env, inner_env == envs.last(), mono(*old(constr), *constr),
//@@ INVCLAIM
//@@< for ast in asts
//@@> forall|i: int| 0 <= i < vit.index@ ==> visited(*constr, #[trigger] front[i], if carry_env { envs[i] } else { *env }, envs[i + 1]), //# loop_every_statement_so_far_was_checked_in_the_environment_its_predecessor_returned [C09,C08]
//@@ HINT after
//@@< inner_env = generate(&ast, $$)?;
//@@> proof { envs = envs.push(inner_env); }
//@@ HINT after
//@@< inner_env = generate(&last, $$)?;
//@@> proof { envs = envs.push(inner_env); }
//@@ HINT before
//@@< Ok(if carry_env { $$ } else { $$ })
//@@> proof { if last is Some { assert(all =~= front.push(last.unwrap())); } else { assert(all =~= front); } }
//@@ CLAIM before
//@@< Ok(if carry_env { $$ } else { $$ })
//@@> assert(chain(all, envs, *env, carry_env, *constr));  //# the_recorded_environments_form_the_chain [C09,C08]
    ensures
        mono(*old(constr), *final(constr)),                  //# visits_are_never_forgotten [C09,C08]
        r matches Ok(e) ==> exists|envs: Seq<Environment>| chain(asts@, envs, *env, carry_env, *final(constr))
            && e == (if carry_env { envs.last() } else { *env }),                //# every_statement_is_checked_in_the_environment_its_predecessor_returned [C09,C08]
        r is Err ==> r->Err_0@.len() >= 1,                                       //# rejection_carries_a_diagnostic [-]
//@@ END


// ---- identifier lookup (C09 "a name that is not defined at that point is rejected") --------------------------------------
/// OUTLINED `a == "literal"` on &str (Verus has no str comparison): compares the texts
#[verifier::external_body]
pub fn verif_str_is(a: &str, b: &str) -> (r: bool) ensures r == (a@ == b@) { unimplemented!() }
#[verifier::external_body]
pub fn gen_primitive(ast: &AST, ty: &str, env: &Environment, constr: &mut ConstrBuilder) -> (r: Constrained)
    ensures mono(*old(constr), *final(constr)), r is Err ==> r->Err_0@.len() >= 1,
{ unimplemented!() }
#[verifier::external_body]
pub fn constrain_args(args: &[AST], env: &Environment, ctx: &Context, constr: &mut ConstrBuilder) -> (r: Constrained)
    ensures mono(*old(constr), *final(constr)), r is Err ==> r->Err_0@.len() >= 1,
{ unimplemented!() }
/// definitions (unit GENDEF)
#[verifier::external_body]
pub fn id_from_var(var: &AST, ty: &Option<Name>, expr: &Option<Box<AST>>, mutable: bool, ctx: &Context, constr: &mut ConstrBuilder, env: &Environment) -> (r: Constrained)
    ensures mono(*old(constr), *final(constr)), r is Err ==> r->Err_0@.len() >= 1,
{ unimplemented!() }

pub const BOOL: &'static str = "Bool";
pub open spec fn is_constant_name(lit: Seq<char>) -> bool { lit == "None"@ || lit == "True"@ || lit == "False"@ }

pub open spec fn id_post(ast: AST, env: Environment, global: VarMapping, r: Constrained) -> bool {
    match ast.node {
        Node::Id { lit } =>
            if is_constant_name(lit@) || env.is_def_mode { true }
            // `with` resources: the name is taken out of scope
            else if env.is_destruct_mode {
                r matches Ok(e) && e == (Environment { vars: e.vars, ..env }) && hm(e.vars) == hm(env.vars).remove(lit@)
            }
            // a USE: accepted iff the name is visible here, and a use changes nothing
            else { (r is Ok <==> visible(env, global, lit@)) && (r matches Ok(e) ==> e == env) },
        _ => r == Ok::<Environment, Vec<TypeErr>>(env),
    }
}

//@@ FN src/check/constrain/generate/expression.rs | free | match_id | props=C09,C03
//@@ REPLACE
//@@< lit.as_str() == "None"
//@@> verif_str_is(lit.as_str(), "None")
//@@ REPLACE
//@@< lit.as_str() == "True" || lit.as_str() == "False"
//@@> verif_str_is(lit.as_str(), "True") || verif_str_is(lit.as_str(), "False")
    ensures
        mono(*old(constr), *final(constr)),                  //# visits_are_never_forgotten [C09]
        id_post(*ast, *env, old(constr).var_mapping, r),                         //# a_use_is_accepted_iff_the_name_is_visible [C09]
        r is Err ==> r->Err_0@.len() >= 1,                                       //# rejection_carries_a_diagnostic [-]
//@@ END

pub open spec fn expr_post(ast: AST, env: Environment, b0: ConstrBuilder, b1: ConstrBuilder, r: Constrained) -> bool {
    match ast.node {
        Node::Id { lit } => id_post(ast, env, b0.var_mapping, r),
        Node::ExpressionType { expr, mutable, ty } => id_post(*expr, env, b0.var_mapping, r),
        // both sides of `a ? b` are checked here; nothing escapes
        Node::Question { left, right } => r matches Ok(e) ==> e == env && seen(b1, *left, env) && seen(b1, *right, env),
        // lambda parameters do not escape
        Node::AnonFun { args, body } => r matches Ok(e) ==> e == env,
        Node::Pass => r == Ok::<Environment, Vec<TypeErr>>(env),
        _ => r is Err,
    }
}

//@@ FN src/check/constrain/generate/expression.rs | free | gen_expr | props=C09,C03
    ensures
        mono(*old(constr), *final(constr)),                  //# visits_are_never_forgotten [C09]
        expr_post(*ast, *env, *old(constr), *final(constr), r),                  //# identifier_uses_go_through_the_lookup [C09]
        r is Err ==> r->Err_0@.len() >= 1,                                       //# rejection_carries_a_diagnostic [-]
//@@ END

// ---- branches, loops, match, handle (C09 scoping; C08 caught set) ----------------------------------------------------------
/// the exception classes the arms of a handle name (HAVOCKED closure chain over TrueName::try_from: a function of the arms)
pub uninterp spec fn arm_types(cases: Seq<AST>) -> Set<TrueName>;
#[verifier::external_body]
pub fn verif_havoc_arm_types(cases: &Vec<AST>) -> (r: TypeResult<HashSet<TrueName>>)
    ensures r matches Ok(s) ==> hs(s) == arm_types(cases@), r is Err ==> r->Err_0@.len() >= 1,
{ unimplemented!() }
#[verifier::external_body]
pub fn constr_col_lookup(expr: &AST, col: &AST, env: &Environment, constr: &mut ConstrBuilder) -> (r: Constrained)
    ensures mono(*old(constr), *final(constr)), r is Err ==> r->Err_0@.len() >= 1,
{ unimplemented!() }
/// OUTLINED `envs.into_iter().reduce(|e1, e2| e1.union(&e2))`: the union (see Environment::union) of all arm environments
#[verifier::external_body]
pub fn verif_union_all(envs: Vec<Environment>) -> (r: Option<Environment>)
    ensures r is None <==> envs@.len() == 0,
        r matches Some(u) ==> forall|x: Seq<char>| hss(u.unassigned).contains(x) <==> exists|i: int| 0 <= i < envs@.len() && hss(#[trigger] envs@[i].unassigned).contains(x),
{ unimplemented!() }

/// one arm: the pattern is checked in definition mode (it DEFINES the arm's variables), the body in the environment
/// the pattern returned, back in the caller's mode
pub open spec fn arm_ok(case: AST, env: Environment, ce: Environment, be: Environment, b: ConstrBuilder) -> bool {
    match case.node {
        Node::Case { cond, body } => visited(b, *cond, Environment { is_def_mode: true, ..env }, ce)
            && visited(b, *body, Environment { is_def_mode: env.is_def_mode, ..ce }, be),
        _ => false,
    }
}
/// a field counts as still unassigned after the arms iff it was unassigned before and is unassigned after SOME arm
pub open spec fn unassigned_after(env: Environment, bes: Seq<Environment>, e: Environment) -> bool {
    if bes.len() == 0 { e == env } else {
        forall|x: Seq<char>| hss(e.unassigned).contains(x)
            <==> (hss(env.unassigned).contains(x) && exists|i: int| 0 <= i < bes.len() && hss(#[trigger] bes[i].unassigned).contains(x))
    }
}
pub open spec fn cases_post(cases: Seq<AST>, env: Environment, e: Environment, b: ConstrBuilder) -> bool {
    // arm variables do not escape; the caught set, the modes and the visible names are the caller's
    &&& e == (Environment { unassigned: e.unassigned, ..env })
    &&& exists|ces: Seq<Environment>, bes: Seq<Environment>| ces.len() == cases.len() && bes.len() == cases.len()
            && (forall|i: int| 0 <= i < cases.len() ==> arm_ok(#[trigger] cases[i], env, ces[i], bes[i], b))
            && unassigned_after(env, bes, e)
}

#[verifier::loop_isolation(false)]
//@@ FN src/check/constrain/generate/control_flow.rs | free | constrain_cases | props=C09,C08,C03
//@@ REPLACE
//@@< envs.into_iter().reduce(|$e1, $e2| $e1.union(&$e2))
//@@> verif_union_all(envs)
//@@ HINT after
//@@< let mut envs = vec![];
//@@> let ghost mut ces: Seq<Environment> = seq![];
//@@ ITERNAME
//@@< for case in cases
//@@> for case in cit: cases
//@@ LOOPINV
//@@< for case in cases
//@@> invariant envs@.len() == cit.index@, ces.len() == cit.index@, mono(*old(constr), *constr),
//@@ INVCLAIM
//@@< for case in cases
//@@> forall|i: int| 0 <= i < cit.index@ ==> arm_ok(#[trigger] cases@[i], *env, ces[i], envs@[i], *constr), //# loop_every_arm_so_far_was_checked_pattern_first_body_in_the_patterns_environment [C09,C08]
//@@ HINT after
//@@< let cond_env = generate(cond, $$)?;
//@@> proof { ces = ces.push(cond_env); }
//@@ HINT before
//@@< let env_union = $$;
//@@> let ghost bes = envs@;
    ensures
        mono(*old(constr), *final(constr)),                  //# visits_are_never_forgotten [C09,C08]
        r matches Ok(e) ==> cases_post(cases@, *env, e, *final(constr)),         //# arm_variables_stay_in_their_arm [C09,C08]
        r is Err ==> r->Err_0@.len() >= 1,                                       //# rejection_carries_a_diagnostic [-]
//@@ END

/// handle: the guarded expression may raise what the arms name; the arms and everything after the handle may not
pub open spec fn handle_post(ast: AST, env: Environment, r: Constrained, b: ConstrBuilder) -> bool {
    match ast.node {
        Node::Handle { expr_or_stmt, cases } => r matches Ok(e) ==> exists|g: Environment, o: Environment, outer: Environment|
            g == (Environment { raises_caught: g.raises_caught, ..env })
            && hs(g.raises_caught) == hs(env.raises_caught).union(arm_types(cases@))
            && #[trigger] visited(b, *expr_or_stmt, g, o)
            && outer == (Environment { raises_caught: outer.raises_caught, ..o })
            && hs(outer.raises_caught) == hs(env.raises_caught)
            && #[trigger] cases_post(cases@, outer, e, b),
        _ => true,
    }
}
pub open spec fn flow_post(ast: AST, env: Environment, r: Constrained, b: ConstrBuilder) -> bool {
    match ast.node {
        Node::Handle { expr_or_stmt, cases } => true,
        // if-else: condition and both arms are checked in the caller's environment; what the arms define stays inside;
        // a field is assigned afterwards iff it was before or is in BOTH arms
        Node::IfElse { cond, then, el: Some(el) } => r matches Ok(e) ==> seen(b, *cond, env)
            && exists|t: Environment, l: Environment| #[trigger] visited(b, *then, env, t) && #[trigger] visited(b, *el, env, l)
                && e == (Environment { unassigned: e.unassigned, ..env })
                && hss(e.unassigned) == hss(env.unassigned).intersect(hss(t.unassigned).union(hss(l.unassigned))),
        Node::IfElse { cond, then, el: None } => r matches Ok(e) ==> seen(b, *cond, env) && seen(b, *then, env) && e == env,
        Node::Case { .. } => r is Err,
        Node::Match { cond, cases } => r matches Ok(e) ==> exists|o: Environment| #[trigger] visited(b, *cond, env, o) && cases_post(cases@, o, e, b),
        // for: the loop variable is defined for the body only
        Node::For { expr, col, body } => r matches Ok(e) ==> e == env && seen(b, *col, env)
            && exists|l0: Environment, l: Environment| #[trigger] visited(b, *expr, l0, l) && !l0.is_def_mode
                && seen(b, *body, Environment { in_loop: true, ..l }),
        Node::While { cond, body } => r matches Ok(e) ==> e == env && seen(b, *cond, env) && seen(b, *body, Environment { in_loop: true, ..env }),
        Node::Break => (r is Ok <==> env.in_loop) && (r matches Ok(e) ==> e == env),
        Node::Continue => (r is Ok <==> env.in_loop) && (r matches Ok(e) ==> e == env),
        _ => r is Err,
    }
}

//@@ FN src/check/constrain/generate/control_flow.rs | free | gen_flow | props=C09,C08,C03
//@@ REPLACE
//@@< let (raises, errs): (Vec<Result<_, _>>, Vec<Result<_, _>>) = cases $$ .partition(Result::is_ok); if !errs.is_empty() { $$ } let raises = raises.into_iter().map(Result::unwrap).collect();
//@@> let raises: HashSet<TrueName> = verif_havoc_arm_types(cases)?;
//@@ REPLACE
//@@< Node::Break | Node::Continue if $$ => $$, Node::Break | Node::Continue => $$,
//@@> Node::Break | Node::Continue => if $$1 { $$2 } else { $$3 }, /* guard folded into the arm: Verus 0.2026.09.13 rejects or-pattern + guard, and loses final(constr) in a match with guards */
//@@ HINT after
//@@< let $t = generate(then, $$, ctx, constr)?;
//@@> let ghost then_g = $t; let ghost then_in: Environment = *($$1); assert(visited(*constr, **then, then_in, then_g));
//@@ HINT after
//@@< let $ee = generate(el, $$, ctx, constr)?;
//@@> let ghost else_g = $ee; let ghost else_in: Environment = *($$1); assert(visited(*constr, **el, else_in, else_g)); assert(visited(*constr, **then, then_in, then_g));
//@@ HINT after
//@@< constr.reset_branches();
//@@> assert(visited(*constr, **el, else_in, else_g) && visited(*constr, **then, then_in, then_g));
//@@ HINT after
//@@< let $o = generate(cond, $$, ctx, constr)?;
//@@> let ghost cond_g = $o; let ghost cond_in: Environment = *($$1); assert(visited(*constr, **cond, cond_in, cond_g));
//@@ HINT before
//@@< let $lk = generate(expr, &$l0, $$)?;
//@@> let ghost l0g = $l0;
//@@ HINT after
//@@< let $lk = generate(expr, &$l0, $$)?;
//@@> let ghost l1g = $lk; assert(visited(*constr, **expr, l0g, l1g));
//@@ HINT after
//@@< generate(body, &$lk.in_loop(), $$)?;
//@@> assert(visited(*constr, **expr, l0g, l1g));
    ensures
        mono(*old(constr), *final(constr)),                  //# visits_are_never_forgotten [C09,C08]
        flow_post(*ast, *env, r, *final(constr)),                                //# definitions_in_branches_and_loops_do_not_escape [C09]
        handle_post(*ast, *env, r, *final(constr)),                              //# handle_extends_the_caught_set_for_the_guarded_expression_only [C08]
        r is Err ==> r->Err_0@.len() >= 1,                                       //# rejection_carries_a_diagnostic [-]
//@@ END

// ---- with (C09: the alias is visible in the body only) -------------------------------------------------------------------
pub open spec fn with_post(ast: AST, env: Environment, r: Constrained, b: ConstrBuilder) -> bool {
    match ast.node {
        Node::With { resource, alias: Some(al), expr } => r matches Ok(e) ==> e == env
            && seen(b, *resource, Environment { is_destruct_mode: true, ..env })
            && exists|a: Environment| !a.is_def_mode && seen(b, *expr, a),
        Node::With { resource, alias: None, expr } => r matches Ok(e) ==> e == env
            && exists|o: Environment| #[trigger] visited(b, *resource, env, o) && seen(b, *expr, o),
        _ => r is Err,
    }
}

//@@ FN src/check/constrain/generate/resources.rs | free | gen_resources | props=C09,C03
    ensures
        mono(*old(constr), *final(constr)),                  //# visits_are_never_forgotten [C09]
        with_post(*ast, *env, r, *final(constr)),                                //# alias_is_visible_in_the_body_only [C09]
        r is Err ==> r->Err_0@.len() >= 1,                                       //# rejection_carries_a_diagnostic [-]
//@@ END

// ---- raise statements and the caught-set test (C08) ---------------------------------------------------------------------------
/// A-EXT (class hierarchy): the class `n`, or an ancestor of it, is a member of `caught` (Context::class + Class::has_parent)
pub uninterp spec fn covered(ctx: Context, n: TrueName, caught: Set<TrueName>) -> bool;
pub open spec fn all_covered(ctx: Context, raises: Set<TrueName>, caught: Set<TrueName>) -> bool {
    forall|n: TrueName| raises.contains(n) ==> covered(ctx, n, caught)
}
/// OUTLINED filter/any/map/collect chain of check_raises_caught: one diagnostic per raised class that is not covered
#[verifier::external_body]
pub fn verif_uncaught(raises: &HashSet<TrueName>, env: &Environment, ctx: &Context, pos: Position) -> (r: Vec<TypeErr>)
    ensures r@.len() == 0 <==> all_covered(*ctx, hs(*raises), hs(env.raises_caught)),
{ unimplemented!() }
/// the class a `raise Name(..)` statement names
pub uninterp spec fn tn_of(lit: Seq<char>) -> TrueName;
/// OUTLINED `HashSet::from_iter([TrueName::from(lit.as_str())])`
#[verifier::external_body]
pub fn verif_one_name(lit: &str) -> (r: HashSet<TrueName>) ensures hs(r) == set![tn_of(lit@)] { unimplemented!() }

//@@ FN src/check/constrain/generate/statement.rs | free | check_raises_caught | props=C08,C03
//@@ REPLACE
//@@< raises .iter() .filter($$) .map($$) .collect()
//@@> verif_uncaught(raises, env, ctx, pos)
    ensures
        // inside a function a raise is accepted iff every raised class is covered by the caught set; a script is unchecked
        r is Ok <==> (!env.in_fun || all_covered(*ctx, hs(*raises), hs(env.raises_caught))), //# raise_is_accepted_only_if_covered_by_the_caught_set [C08]
        r is Err ==> r->Err_0@.len() >= 1,                                       //# rejection_carries_a_diagnostic [-]
//@@ END

pub open spec fn raise_post(ast: AST, env: Environment, ctx: Context, r: Constrained) -> bool {
    match ast.node {
        Node::Raise { error } => match error.node {
            Node::FunctionCall { name, args } => match name.node {
                // `raise E(..)` in a function: E must be covered by what is declared or handled here
                Node::Id { lit } => (r is Ok <==> (!env.in_fun || covered(ctx, tn_of(lit@), hs(env.raises_caught))))
                    && (r matches Ok(e) ==> e == env),
                _ => r is Err,
            },
            _ => r is Err,
        },
        _ => true,
    }
}

//@@ FN src/check/constrain/generate/statement.rs | free | gen_stmt | props=C08,C03
//@@ REPLACE
//@@< HashSet::from_iter([TrueName::from(lit.as_str())])
//@@> verif_one_name(lit.as_str())
    ensures
        mono(*old(constr), *final(constr)),                                      //# visits_are_never_forgotten [C09,C08]
        raise_post(*ast, *env, *ctx, r),                                         //# raise_statement_is_checked_against_the_caught_set [C08]
        r is Err ==> r->Err_0@.len() >= 1,                                       //# rejection_carries_a_diagnostic [-]
//@@ END

} // verus!

fn main() {}
