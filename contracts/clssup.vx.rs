//@@ UNIT CLSSUP
// Unit CLSSUP — the CLASS LAYER of the assignability order (C20, and the layer C06's nullable rule delegates to):
//   src/check/name/string_name/mod.rs   <StringName as IsSuperSet<StringName>>::is_superset_of
//   src/check/context/clss/mod.rs       <Class as HasParent<&StringName>>::has_parent   (the recursive ancestor search)
// Unit NULL takes this layer as the uninterpreted `cls_sup` and states its lemmas under hypotheses about it (reflexive, Any on
// top); here the two that can be read off the code are proved on the real bodies: a class is below itself, everything is
// below Any — and the answer `true` is only ever given along declared edges (`below`: the least relation closed under the
// four rules stated as axioms below).  The generic-parameter comparison (zip + nested set loops, `&=`) is havocked; the
// final `parents.iter().map(|p| ..recursive call..).collect()?.iter().any(..)` is verified by closure splicing.
#![allow(unused_imports, dead_code, unused_variables, non_snake_case, unused_mut)]
use vstd::prelude::*;
use std::marker::PhantomData;

//@@ INCLUDE pos_types.inc.rs
/// stand-in for std::collections::HashSet (same name: the copied structs are verbatim)
#[derive(Clone, Debug, PartialEq, Eq, Hash)] pub struct HashSet<T> { _t: PhantomData<T> }
impl<T> Default for HashSet<T> { fn default() -> Self { HashSet { _t: PhantomData } } }
//@@ TYPE src/check/name/true_name/mod.rs | struct | TrueName
//@@ TYPE src/check/name/string_name/mod.rs | struct | StringName | strip_derive=PartialOrd,Ord
//@@ TYPE src/check/name/mod.rs | struct | Name
impl PartialEq for Name { fn eq(&self, o: &Name) -> bool { unimplemented!() } }
impl std::hash::Hash for Name { fn hash<H: std::hash::Hasher>(&self, state: &mut H) { unimplemented!() } }
/// partial stand-in: the two public fields the ancestor search reads are real, the rest is opaque
pub struct ClassRest { _x: u8 }
pub struct Class { pub name: StringName, pub parents: HashSet<TrueName>, pub verif_rest: ClassRest }
pub struct Context { _x: u8 }
#[derive(Clone)]
pub struct TypeErr { _x: u8 }
pub type TypeResult<T> = Result<T, Vec<TypeErr>>;

verus! {

#[verifier::external_type_specification] pub struct ExPosition(Position);
#[verifier::external_type_specification] pub struct ExCaretPos(CaretPos);
#[verifier::external_type_specification] #[verifier::external_body] #[verifier::accept_recursive_types(T)]
pub struct ExHashSet<T>(HashSet<T>);
#[verifier::external_type_specification] pub struct ExTrueName(TrueName);
#[verifier::external_type_specification] pub struct ExStringName(StringName);
#[verifier::external_type_specification] pub struct ExName(Name);
#[verifier::external_type_specification] #[verifier::external_body] pub struct ExClassRest(ClassRest);
#[verifier::external_type_specification] pub struct ExClass(Class);
#[verifier::external_type_specification] #[verifier::external_body] pub struct ExContext(Context);
#[verifier::external_type_specification] #[verifier::external_body] pub struct ExTypeErr(TypeErr);

pub const ANY: &'static str = "Any";

/// A-STD-COLL: iterating a HashSet yields each member once, in the set's order
pub uninterp spec fn mem(s: HashSet<TrueName>) -> Seq<TrueName>;

// ---- /repo functions with ASSUMED contracts in this unit (bodies pinned) --------------------------------------------------------
//@@ ASSUME src/check/context/clss/mod.rs | impl LookupClass<&StringName, Class> for Context | class
//@@ ASSUME src/check/context/clss/mod.rs | impl LookupClass<&TrueName, Class> for Context | class
// ---- the declared class order -------------------------------------------------------------------------------------------------
/// `c` is below `o`: the least relation closed under the rules R1-R4 (stated as axioms: they DEFINE the relation the search is
/// checked against; the search may answer `true` only when the relation holds, and must answer `true` for R1 and R2)
pub uninterp spec fn below(ctx: Context, c: StringName, o: StringName) -> bool;
/// the class the context holds under a name, if any (Context::class: iterator code over the class table)
pub uninterp spec fn class_of(ctx: Context, n: StringName) -> Option<Class>;
/// the generic-parameter rule: same class name (or the Tuple exception) and every generic argument below its counterpart
pub uninterp spec fn generics_below(ctx: Context, c: StringName, o: StringName) -> bool;
/// R1: a class is below itself
#[verifier::external_body] pub proof fn rule_self(ctx: Context, c: StringName) ensures below(ctx, c, c) {}
/// R2: every class is below Any
#[verifier::external_body] pub proof fn rule_any(ctx: Context, c: StringName, o: StringName) requires o.name@ == "Any"@ ensures below(ctx, c, o) {}
/// R3: below by generic arguments
#[verifier::external_body] pub proof fn rule_generics(ctx: Context, c: StringName, o: StringName) requires generics_below(ctx, c, o) ensures below(ctx, c, o) {}
/// R4: below whatever a declared parent is below
#[verifier::external_body]
pub proof fn rule_parent(ctx: Context, c: Class, k: int, pc: Class, o: StringName)
    requires 0 <= k < mem(c.parents).len(), class_of(ctx, mem(c.parents)[k].variant) == Some(pc), below(ctx, pc.name, o),
    ensures below(ctx, c.name, o),
{}

// A-DERIVE: derived PartialEq of StringName is structural
pub assume_specification[<StringName as PartialEq>::eq](a: &StringName, b: &StringName) -> (r: bool) ensures r == (*a == *b);
/// OUTLINED `other.name.as_str() == ANY`
#[verifier::external_body]
pub fn verif_str_is(a: &str, b: &str) -> (r: bool) ensures r == (a@ == b@) { unimplemented!() }
/// OUTLINED contender test `(self.name.name == TUPLE && (other.name == TUPLE || other.name == COLLECTION)) || (self.name.name
/// == *other.name && self.name.generics.len() == other.generics.len())` (String comparisons): a function of the two names
pub uninterp spec fn contender(c: StringName, o: StringName) -> bool;
#[verifier::external_body]
pub fn verif_contender(c: &StringName, o: &StringName) -> (r: bool) ensures r == contender(*c, *o) { unimplemented!() }
/// HAVOCKED: the generic-argument loops (`generics.iter().zip(..)`, nested set iteration, `&=` over recursive queries): answers
/// true only if the generic rule holds
#[verifier::external_body]
pub fn verif_havoc_generics(c: &Class, o: &StringName, ctx: &Context, pos: Position) -> (r: TypeResult<bool>)
    ensures r matches Ok(b) ==> (b ==> generics_below(*ctx, c.name, *o)), r is Err ==> r->Err_0@.len() >= 1,
{ unimplemented!() }

/// what Context::class accepts as a key (the real code overloads the trait for &StringName and &TrueName = its variant)
pub trait ClassKey { spec fn key(&self) -> StringName; }
impl ClassKey for StringName { open spec fn key(&self) -> StringName { *self } }
impl ClassKey for TrueName { open spec fn key(&self) -> StringName { self.variant } }
impl Context {
    /// A-EXT: the class table is a function of the name; a class is stored under its own name
    #[verifier::external_body]
    pub fn class<Q: ClassKey>(&self, n: &Q, pos: Position) -> (r: TypeResult<Class>)
        ensures match class_of(*self, n.key()) { Some(c) => r == Ok::<Class, Vec<TypeErr>>(c), None => r is Err && r->Err_0@.len() >= 1 },
    { unimplemented!() }
}

/// A-REWRITE: `set.iter().map(f).collect::<Result<Vec<bool>, _>>()`: Ok with one result per member iff f succeeds on every member
#[verifier::external_body]
pub fn verif_map_collect_results<F: Fn(&TrueName) -> TypeResult<bool>>(s: &HashSet<TrueName>, f: F, Ghost(okv): Ghost<spec_fn(TrueName, bool) -> bool>) -> (r: TypeResult<Vec<bool>>)
    requires forall|x: TrueName| #[trigger] f.requires((&x,)),
        forall|x: TrueName, out: TypeResult<bool>| #[trigger] f.ensures((&x,), out) ==> (out matches Ok(b) ==> okv(x, b)) && (out is Err ==> out->Err_0@.len() >= 1),
    ensures
        r matches Ok(v) ==> v@.len() == mem(*s).len() && forall|k: int| 0 <= k < v@.len() ==> okv(mem(*s)[k], #[trigger] v@[k]),
        r is Err ==> r->Err_0@.len() >= 1,
{ unimplemented!() }
/// OUTLINED `v.iter().any(|b| *b)` on a Vec<bool>
#[verifier::external_body]
pub fn verif_any_true(v: &Vec<bool>) -> (r: bool) ensures r == (exists|k: int| 0 <= k < v@.len() && #[trigger] v@[k]) { unimplemented!() }

impl Class {
#[verifier::exec_allows_no_decreases_clause]
//@@ FN src/check/context/clss/mod.rs | impl HasParent<&StringName> for Class | has_parent | props=C20,C06,C03
//@@ REPLACE
//@@< other.name.as_str() == ANY
//@@> verif_str_is(other.name.as_str(), ANY)
//@@ REPLACE
//@@< (self.name.name == TUPLE && (other.name == TUPLE || other.name == COLLECTION)) || (self.name.name == *other.name && self.name.generics.len() == other.generics.len())
//@@> verif_contender(&self.name, other)
//@@ REPLACE pin=008dddba2fb0
//@@< for ($sn, $on) in self.name.generics.iter().zip(&other.generics) { $$ }
//@@> all_generic_super = verif_havoc_generics(self, other, ctx, pos)?;
//@@ REPLACE deep
//@@< self .parents .iter() .map(|$p| $$) .collect::<Result<Vec<bool>, _>>()? .iter() .any(|b| *b)
//@@> { let verif_v = verif_map_collect_results(&self.parents, |$p: &TrueName| -> (res: TypeResult<bool>) ensures /*# a_parent_answers_true_only_if_it_is_below [C20] #*/ (res matches Ok(b) ==> (b ==> exists|pc: Class| class_of(*ctx, $p.variant) == Some(pc) && below(*ctx, pc.name, *other))), res is Err ==> res->Err_0@.len() >= 1, { $$1 }, Ghost(|x: TrueName, b: bool| b ==> exists|pc: Class| class_of(*ctx, x.variant) == Some(pc) && below(*ctx, pc.name, *other)))?; let verif_b = verif_any_true(&verif_v); proof { if verif_b { let k = choose|k: int| 0 <= k < verif_v@.len() && #[trigger] verif_v@[k]; let pc = choose|pc: Class| class_of(*ctx, mem(self.parents)[k].variant) == Some(pc) && below(*ctx, pc.name, *other); rule_parent(*ctx, *self, k, pc, *other); } } verif_b }
//@@ HINT before
//@@< if self.name == *other || $$ {
//@@> proof { if self.name == *other { rule_self(*ctx, self.name); } if other.name@ == "Any"@ { rule_any(*ctx, self.name, *other); } }
//@@ HINT before
//@@< if all_generic_super { return
//@@> proof { if all_generic_super { rule_generics(*ctx, self.name, *other); } }
    ensures
        // C20 reflexive / Any on top, at the class layer: read off the first test of the real search
        (self.name == *other || other.name@ == "Any"@) ==> r == Ok::<bool, Vec<TypeErr>>(true),   //# a_class_is_below_itself_and_below_any [C20,C06]
        // the search answers `true` only along declared edges
        r == Ok::<bool, Vec<TypeErr>>(true) ==> below(*ctx, self.name, *other),   //# true_only_if_below_in_the_declared_order [C20,C06]
        r is Err ==> r->Err_0@.len() >= 1,                                       //# rejection_carries_a_diagnostic [C19]
//@@ END
}

impl StringName {
//@@ FN src/check/name/string_name/mod.rs | impl IsSuperSet<StringName> for StringName | is_superset_of | props=C20,C06,C03
    ensures
        // `sup >= sub` asks the class stored under `sub` whether `sup` is among its ancestors-or-self
        (class_of(*ctx, *other) matches Some(c) && (c.name == *self || self.name@ == "Any"@)) ==> r == Ok::<bool, Vec<TypeErr>>(true),   //# reflexive_and_any_on_top_for_known_classes [C20,C06]
        r == Ok::<bool, Vec<TypeErr>>(true) ==> (class_of(*ctx, *other) matches Some(c) && below(*ctx, c.name, *self)),   //# accepted_only_if_the_subtypes_class_is_below [C20,C06]
        r is Err ==> r->Err_0@.len() >= 1,                                       //# rejection_carries_a_diagnostic [C19]
//@@ END
}

} // verus!

fn main() {}
