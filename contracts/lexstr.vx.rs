//@@ DEFINE STRARM
//@@ INCLUDE lex.vx.rs
//@@ UNIT LEXSTR
//@@ COUNTONLY into_tokens
