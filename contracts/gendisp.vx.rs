//@@ UNIT GENDISP
// Unit GENDISP — src/check/constrain/generate/mod.rs::generate: the dispatcher of the constraint generator.  Units GENFLOW,
// GENCALL and GENDEF verify the individual generators against an EXTERNAL `generate`; this unit closes the loop on the
// routing: every node kind reaches the generator that implements its rule, with the caller's environment, and only five
// kinds (import, generic, parent, doc string, underscore) are accepted without any check.  Each generator is an external
// deterministic function here (result and builder state are uninterpreted functions of its arguments): the only way to
// prove `r == gen_flow's result on (ast, env, ctx, constr)` is to call gen_flow with exactly these arguments.
#![allow(unused_imports, dead_code, unused_variables, non_snake_case, unused_mut)]
use vstd::prelude::Seq;
use vstd::prelude::verus;
use vstd::prelude::*;

//@@ INCLUDE pos_types.inc.rs
//@@ TYPE src/parse/ast/mod.rs | struct | AST
//@@ TYPE src/parse/ast/mod.rs | type | OptAST
//@@ TYPE src/parse/ast/mod.rs | enum | Node
//@@ TYPE src/parse/ast/node_op.rs | enum | NodeOp
#[derive(Clone)]
pub struct Environment { _x: u8 }
pub struct Context { _x: u8 }
pub struct TypeErr { _x: u8 }
pub struct ConstrBuilder { _x: u8 }
pub type Constrained<T = Environment> = Result<T, Vec<TypeErr>>;

verus! {

#[verifier::external_type_specification] pub struct ExPosition(Position);
#[verifier::external_type_specification] pub struct ExCaretPos(CaretPos);
#[verifier::external_type_specification] pub struct ExAST(AST);
#[verifier::external_type_specification] pub struct ExNode(Node);
#[verifier::external_type_specification] pub struct ExNodeOp(NodeOp);
#[verifier::external_type_specification] #[verifier::external_body] pub struct ExEnvironment(Environment);
#[verifier::external_type_specification] #[verifier::external_body] pub struct ExContext(Context);
#[verifier::external_type_specification] #[verifier::external_body] pub struct ExTypeErr(TypeErr);
#[verifier::external_type_specification] #[verifier::external_body] pub struct ExConstrBuilder(ConstrBuilder);
pub assume_specification[<Environment as Clone>::clone](t: &Environment) -> (r: Environment) ensures r == *t;

/// the generators, by number: 0 gen_vec(carry) 1 gen_class 2 gen_def 3 gen_call 4 gen_ty 5 gen_expr 6 gen_resources 7 gen_coll
/// 8 gen_op 9 gen_flow 10 gen_stmt — result and builder effect of generator k on (node, environment, context, builder)
pub uninterp spec fn g_res(k: int, ast: AST, env: Environment, ctx: Context, b: ConstrBuilder) -> Constrained;
pub uninterp spec fn g_bld(k: int, ast: AST, env: Environment, ctx: Context, b: ConstrBuilder) -> ConstrBuilder;
/// gen_vec on the statements of a block, environment carried from statement to statement
pub uninterp spec fn v_res(asts: Seq<AST>, env: Environment, carry: bool, ctx: Context, b: ConstrBuilder) -> Constrained;
pub uninterp spec fn v_bld(asts: Seq<AST>, env: Environment, carry: bool, ctx: Context, b: ConstrBuilder) -> ConstrBuilder;

#[verifier::external_body]
pub fn gen_vec(asts: &[AST], env: &Environment, carry_env: bool, ctx: &Context, constr: &mut ConstrBuilder) -> (r: Constrained)
    ensures r == v_res(asts@, *env, carry_env, *ctx, *old(constr)), *final(constr) == v_bld(asts@, *env, carry_env, *ctx, *old(constr)) { unimplemented!() }
#[verifier::external_body]
pub fn gen_class(ast: &AST, env: &Environment, ctx: &Context, constr: &mut ConstrBuilder) -> (r: Constrained)
    ensures r == g_res(1, *ast, *env, *ctx, *old(constr)), *final(constr) == g_bld(1, *ast, *env, *ctx, *old(constr)) { unimplemented!() }
#[verifier::external_body]
pub fn gen_def(ast: &AST, env: &Environment, ctx: &Context, constr: &mut ConstrBuilder) -> (r: Constrained)
    ensures r == g_res(2, *ast, *env, *ctx, *old(constr)), *final(constr) == g_bld(2, *ast, *env, *ctx, *old(constr)) { unimplemented!() }
#[verifier::external_body]
pub fn gen_call(ast: &AST, env: &Environment, ctx: &Context, constr: &mut ConstrBuilder) -> (r: Constrained)
    ensures r == g_res(3, *ast, *env, *ctx, *old(constr)), *final(constr) == g_bld(3, *ast, *env, *ctx, *old(constr)) { unimplemented!() }
#[verifier::external_body]
pub fn gen_ty(ast: &AST, env: &Environment, ctx: &Context, constr: &mut ConstrBuilder) -> (r: Constrained)
    ensures r == g_res(4, *ast, *env, *ctx, *old(constr)), *final(constr) == g_bld(4, *ast, *env, *ctx, *old(constr)) { unimplemented!() }
#[verifier::external_body]
pub fn gen_expr(ast: &AST, env: &Environment, ctx: &Context, constr: &mut ConstrBuilder) -> (r: Constrained)
    ensures r == g_res(5, *ast, *env, *ctx, *old(constr)), *final(constr) == g_bld(5, *ast, *env, *ctx, *old(constr)) { unimplemented!() }
#[verifier::external_body]
pub fn gen_resources(ast: &AST, env: &Environment, ctx: &Context, constr: &mut ConstrBuilder) -> (r: Constrained)
    ensures r == g_res(6, *ast, *env, *ctx, *old(constr)), *final(constr) == g_bld(6, *ast, *env, *ctx, *old(constr)) { unimplemented!() }
#[verifier::external_body]
pub fn gen_coll(ast: &AST, env: &Environment, ctx: &Context, constr: &mut ConstrBuilder) -> (r: Constrained)
    ensures r == g_res(7, *ast, *env, *ctx, *old(constr)), *final(constr) == g_bld(7, *ast, *env, *ctx, *old(constr)) { unimplemented!() }
#[verifier::external_body]
pub fn gen_op(ast: &AST, env: &Environment, ctx: &Context, constr: &mut ConstrBuilder) -> (r: Constrained)
    ensures r == g_res(8, *ast, *env, *ctx, *old(constr)), *final(constr) == g_bld(8, *ast, *env, *ctx, *old(constr)) { unimplemented!() }
#[verifier::external_body]
pub fn gen_flow(ast: &AST, env: &Environment, ctx: &Context, constr: &mut ConstrBuilder) -> (r: Constrained)
    ensures r == g_res(9, *ast, *env, *ctx, *old(constr)), *final(constr) == g_bld(9, *ast, *env, *ctx, *old(constr)) { unimplemented!() }
#[verifier::external_body]
pub fn gen_stmt(ast: &AST, env: &Environment, ctx: &Context, constr: &mut ConstrBuilder) -> (r: Constrained)
    ensures r == g_res(10, *ast, *env, *ctx, *old(constr)), *final(constr) == g_bld(10, *ast, *env, *ctx, *old(constr)) { unimplemented!() }

/// the generator that implements the rule for a node kind (None: a block; Some(-1): accepted without any check)
pub open spec fn route(n: Node) -> Option<int> {
    match n {
        Node::Block { .. } => None,
        Node::Class { .. } | Node::TypeDef { .. } | Node::TypeAlias { .. } | Node::Condition { .. } => Some(1),
        Node::VariableDef { .. } | Node::FunDef { .. } | Node::FunArg { .. } => Some(2),
        // assignments and calls: mutability (C07), arity and argument types (C05), declared raises (C08)
        Node::Reassign { .. } | Node::FunctionCall { .. } | Node::PropertyCall { .. } | Node::Index { .. } => Some(3),
        Node::TypeTup { .. } | Node::TypeUnion { .. } | Node::Type { .. } | Node::TypeFun { .. } | Node::QuestionOp { .. } => Some(4),
        // identifier uses (C09)
        Node::ExpressionType { .. } | Node::Id { .. } | Node::Question { .. } | Node::AnonFun { .. } | Node::Pass => Some(5),
        Node::With { .. } => Some(6),
        Node::SetBuilder { .. } | Node::ListBuilder { .. } | Node::DictBuilder { .. } | Node::Set { .. } | Node::List { .. } | Node::Tuple { .. } | Node::Dict { .. } => Some(7),
        Node::Range { .. } | Node::Slice { .. } | Node::Real { .. } | Node::Int { .. } | Node::ENum { .. } | Node::Str { .. } | Node::In { .. }
        | Node::Add { .. } | Node::Sub { .. } | Node::Mul { .. } | Node::Div { .. } | Node::FDiv { .. } | Node::Pow { .. }
        | Node::Le { .. } | Node::Ge { .. } | Node::Leq { .. } | Node::Geq { .. } | Node::Eq { .. } | Node::Neq { .. } | Node::Mod { .. }
        | Node::AddU { .. } | Node::SubU { .. } | Node::Sqrt { .. } | Node::BOneCmpl { .. } | Node::BAnd { .. } | Node::BOr { .. } | Node::BXOr { .. }
        | Node::BLShift { .. } | Node::BRShift { .. } | Node::Is { .. } | Node::IsN { .. } | Node::IsA { .. } | Node::IsNA { .. }
        | Node::And { .. } | Node::Or { .. } | Node::Not { .. } => Some(8),
        // branches, loops, match, handle (C09 scoping, C08 caught set)
        Node::IfElse { .. } | Node::Match { .. } | Node::Handle { .. } | Node::Case { .. } | Node::For { .. } | Node::While { .. } | Node::Break | Node::Continue => Some(9),
        // return / raise (C05, C06, C08)
        Node::Return { .. } | Node::ReturnEmpty | Node::Raise { .. } => Some(10),
        Node::Import { .. } | Node::Generic { .. } | Node::Parent { .. } | Node::DocStr { .. } | Node::Underscore => Some(-1),
    }
}

pub open spec fn dispatch_post(ast: AST, env: Environment, ctx: Context, b0: ConstrBuilder, r: Constrained, b1: ConstrBuilder) -> bool {
    match route(ast.node) {
        // a block: its statements, in order, the environment carried from one to the next
        None => ast.node matches Node::Block { statements } && r == v_res(statements@, env, true, ctx, b0) && b1 == v_bld(statements@, env, true, ctx, b0),
        Some(k) => if k == -1 { r == Ok::<Environment, Vec<TypeErr>>(env) && b1 == b0 }
                   else { r == g_res(k, ast, env, ctx, b0) && b1 == g_bld(k, ast, env, ctx, b0) },
    }
}

} // verus!

// the dispatcher refers to the variants by their bare names (`use crate::parse::ast::Node::*` in mod.rs); inside the verus!
// block above a glob import would clash with vstd's own `Set`, so the function lives in a module of its own
mod disp {
    use vstd::prelude::verus;
    use super::*;
    use crate::Node::*;
    use crate::Node::Set;
    verus! {
//@@ FN src/check/constrain/generate/mod.rs | free | generate | mod=disp | props=C07,C09,C08,C05,C03
    ensures
        dispatch_post(*ast, *env, *ctx, *old(constr), r, *final(constr)),        //# every_node_kind_reaches_the_generator_of_its_rule_with_the_callers_environment [C07,C09,C08,C05]
//@@ END
    }
}

fn main() {}
