//@@ UNIT NAMEPY
// Unit NAMEPY — src/generate/name.rs::<Name as ToPy>::to_py: how a (union) type is written into the emitted Python.  A Name holds
// its members in a std HashSet whose iteration order depends on a per-process random seed (C12).  The HashSet is replaced by a
// stand-in of the same name whose ONLY way to enumerate members is an external helper that may return them in ANY order
// (every call may answer differently); `sorted()` (itertools) is outlined with the contract of sorting by a total order: the
// ascending enumeration, which depends on the set alone.  Verified: the emitted type and the import table after the call are
// functions of the SET of members (and of the table before), whatever order the iteration takes.
#![feature(allocator_api)]
#![allow(unused_imports, dead_code, unused_variables, non_snake_case, unused_mut)]
use vstd::prelude::*;
use std::marker::PhantomData;

//@@ INCLUDE pos_types.inc.rs
/// stand-in for std::collections::HashSet (same name: the copied struct is verbatim)
#[derive(Clone, Debug, PartialEq, Eq, Hash)] pub struct HashSet<T> { _t: PhantomData<T> }
impl<T> Default for HashSet<T> { fn default() -> Self { HashSet { _t: PhantomData } } }
#[derive(Clone, Debug, Default, PartialEq, Eq, Hash)]
pub struct TrueName { _x: u8 }
//@@ TYPE src/check/name/mod.rs | struct | Name
impl PartialEq for Name { fn eq(&self, o: &Name) -> bool { unimplemented!() } }
//@@ TYPE src/generate/ast/node.rs | enum | Core
//@@ TYPE src/generate/ast/node.rs | enum | CoreOp
//@@ TYPE src/generate/ast/node.rs | enum | CoreFunOp
//@@ TYPE src/check/name/string_name/mod.rs | struct | StringName | strip_derive=Hash,PartialOrd,Ord
pub struct Imports { _x: u8 }

// ---- /repo functions with ASSUMED contracts in this unit (bodies pinned: contracts/assume_pins.json) ----------------------------
//@@ ASSUME src/generate/name.rs | free | core_type
//@@ ASSUME src/generate/name.rs | impl ToPy for TrueName | to_py
//@@ ASSUME src/check/name/mod.rs | impl From<&TrueName> for Name | from
verus! {

#[verifier::external_type_specification] pub struct ExPosition(Position);
#[verifier::external_type_specification] pub struct ExCaretPos(CaretPos);
#[verifier::external_type_specification] #[verifier::external_body] #[verifier::accept_recursive_types(T)]
pub struct ExHashSet<T>(HashSet<T>);
#[verifier::external_type_specification] #[verifier::external_body] pub struct ExTrueName(TrueName);
#[verifier::external_type_specification] pub struct ExName(Name);
#[verifier::external_type_specification] pub struct ExCore(Core);
#[verifier::external_type_specification] pub struct ExCoreOp(CoreOp);
#[verifier::external_type_specification] pub struct ExCoreFunOp(CoreFunOp);
#[verifier::external_type_specification] #[verifier::external_body] pub struct ExImports(Imports);
#[verifier::external_type_specification] pub struct ExStringName(StringName);

//@@ CONST src/check/context/clss/python.rs | UNION
//@@ CONST src/check/context/clss/python.rs | TUPLE
//@@ CONST src/check/context/clss/python.rs | CALLABLE
//@@ CONST src/check/context/clss/python.rs | ANY
pub mod clss {
//@@ CONST src/check/context/clss/mod.rs | UNION
//@@ CONST src/check/context/clss/mod.rs | TUPLE
//@@ CONST src/check/context/clss/mod.rs | CALLABLE
//@@ CONST src/check/context/clss/mod.rs | ANY
}

// ---- the HashSet (A-STD-COLL): a finite set; its iteration order is NOT specified --------------------------------------------------
pub uninterp spec fn hs(s: HashSet<TrueName>) -> Set<TrueName>;
impl HashSet<TrueName> {
    #[verifier::external_body]
    pub fn len(&self) -> (r: usize) ensures hs(*self).finite(), r == hs(*self).len() { unimplemented!() }
}
/// v lists every member of s exactly once (in some order)
pub open spec fn enumerates(v: Seq<&TrueName>, s: Set<TrueName>) -> bool {
    v.len() == s.len() && (forall|k: int| 0 <= k < v.len() ==> s.contains(*#[trigger] v[k]))
    && (forall|x: TrueName| s.contains(x) ==> exists|k: int| 0 <= k < v.len() && *#[trigger] v[k] == x)
}
/// REPLACED `set.iter()`: the members in SOME order — which one depends on the hash seed; two calls may answer differently
#[verifier::external_body]
pub fn verif_iter_any<'a>(s: &'a HashSet<TrueName>) -> (r: Vec<&'a TrueName>) ensures enumerates(r@, hs(*s)) { unimplemented!() }
/// A-STD (Ord for TrueName is a total order consistent with ==): the ascending enumeration of a finite set
pub uninterp spec fn ascending(s: Set<TrueName>) -> Seq<TrueName>;
/// OUTLINED `.sorted()` (itertools): sorting any enumeration of s yields the ascending one
#[verifier::external_body]
pub fn verif_sorted<'a>(v: Vec<&'a TrueName>, Ghost(s): Ghost<Set<TrueName>>) -> (r: Vec<&'a TrueName>)
    requires enumerates(v@, s),
    ensures r@.len() == ascending(s).len(), forall|k: int| 0 <= k < r@.len() ==> *(#[trigger] r@[k]) == ascending(s)[k],
{ unimplemented!() }
/// Name::from(&TrueName) (body pinned): a function of the member
pub uninterp spec fn name_from(t: TrueName) -> Name;
/// OUTLINED `.map(Name::from).collect()`
#[verifier::external_body]
pub fn verif_map_name_from(v: Vec<&TrueName>) -> (r: Vec<Name>)
    ensures r@.len() == v@.len(), forall|k: int| 0 <= k < v@.len() ==> (#[trigger] r@[k]) == name_from(*v@[k]),
{ unimplemented!() }
/// OUTLINED `.next()` on a fresh iterator: the first member of the enumeration, if any
#[verifier::external_body]
pub fn verif_first<'a>(v: Vec<&'a TrueName>) -> (r: Option<&'a TrueName>)
    ensures r is Some <==> v@.len() > 0, r matches Some(x) ==> x == v@[0],
{ unimplemented!() }

// ---- the callees (A-EXT): functions of their arguments and of the import table ---------------------------------------------------------
pub uninterp spec fn imp_add(i: Imports, m: Seq<char>, n: Seq<char>) -> Imports;
/// the table holds `from m import .., n, ..` (unit IMPFROM proves on the real add_from_import: registered, nothing forgotten)
pub uninterp spec fn imp_has(i: Imports, m: Seq<char>, n: Seq<char>) -> bool;
pub open spec fn imp_grows(a: Imports, b: Imports) -> bool { forall|m: Seq<char>, n: Seq<char>| imp_has(a, m, n) ==> imp_has(b, m, n) }
impl Imports {
    #[verifier::external_body]
    pub fn add_from_import(&mut self, from: &str, import: &str)
        ensures *final(self) == imp_add(*old(self), from@, import@), imp_has(*final(self), from@, import@), imp_grows(*old(self), *final(self)),
    { unimplemented!() }
}
pub uninterp spec fn core_type_of(lit: Seq<char>, generics: Seq<Name>, i: Imports) -> (Core, Imports);
#[verifier::external_body]
pub fn core_type(lit: &str, generics: &[Name], imp: &mut Imports) -> (r: Core)
    ensures (r, *final(imp)) == core_type_of(lit@, generics@, *old(imp)), imp_grows(*old(imp), *final(imp)),
        r matches Core::Type { lit: l, generics: g } && l@ == lit@,
{ unimplemented!() }
pub uninterp spec fn tn_py(t: TrueName, i: Imports) -> (Core, Imports);
impl TrueName {
    #[verifier::external_body]
    pub fn to_py(&self, imp: &mut Imports) -> (r: Core) ensures (r, *final(imp)) == tn_py(*self, *old(imp)), imp_grows(*old(imp), *final(imp)) { unimplemented!() }
}

// ---- specification (C12) ------------------------------------------------------------------------------------------------------------
pub open spec fn names_from(v: Seq<TrueName>) -> Seq<Name> { Seq::new(v.len(), |k: int| name_from(v[k])) }
/// the emitted type and the import table afterwards, as a function of the SET of members
pub open spec fn union_py(s: Set<TrueName>, i: Imports) -> (Core, Imports) {
    core_type_of(UNION@, names_from(ascending(s)), imp_add(i, "typing"@, UNION@))
}
/// a set with one member has no other member
pub proof fn lemma_single_member(s: Set<TrueName>, x: TrueName, y: TrueName)
    requires s.finite(), s.len() == 1, s.contains(x), s.contains(y),
    ensures x == y,
{
    if x != y {
        let s1 = s.remove(x);
        assert(s1.contains(y));
        assert(s1.len() == 0);
        assert(s1 =~= Set::empty());
    }
}

impl Name {
//@@ FN src/generate/name.rs | impl ToPy for Name | to_py | props=C12,C16,C03
//@@ REPLACE optional
//@@< self.names.iter().sorted().map(Name::from).collect()
//@@> verif_map_name_from(verif_sorted(verif_iter_any(&self.names), Ghost(hs(self.names))))
//@@ REPLACE optional
//@@< self.names.iter().map(Name::from).collect()
//@@> verif_map_name_from(verif_iter_any(&self.names))
//@@ REPLACE
//@@< core_type(UNION, &generics, imp)
//@@> core_type(UNION, generics.as_slice(), imp)
//@@ REPLACE
//@@< self.names.iter().next()
//@@> verif_first(verif_iter_any(&self.names))
//@@ CLAIM before
//@@< core_type(UNION, &generics, imp)
//@@> assert(generics@ =~= names_from(ascending(hs(self.names))));  //# the_members_handed_to_the_printer_are_in_ascending_order [C12]
//@@ HINT before
//@@< name.to_py(imp)
//@@> proof { assert forall|x: TrueName| hs(self.names).contains(x) implies x == *name by { lemma_single_member(hs(self.names), x, *name); } }
    ensures
        hs(self.names).len() > 1 ==> (r, *final(imp)) == union_py(hs(self.names), *old(imp)),   //# a_union_is_written_with_its_members_in_ascending_order_whatever_the_iteration_order [C12]
        hs(self.names).len() == 1 ==> forall|x: TrueName| hs(self.names).contains(x) ==> (r, *final(imp)) == tn_py(x, *old(imp)),   //# a_single_member_is_written_as_itself [C12]
        hs(self.names).len() == 0 ==> r == Core::Empty && *final(imp) == *old(imp),   //# no_member_writes_nothing [C12]
        imp_grows(*old(imp), *final(imp)),                                          //# imports_only_grow [C16]
        hs(self.names).len() > 1 ==> imp_has(*final(imp), "typing"@, UNION@),        //# a_union_type_registers_the_typing_import_it_uses [C16]
//@@ END
}

// ---- StringName::to_py (C16: Tuple / Callable / Any / Union are imported from typing whenever they are emitted) ---------------------
/// OUTLINED `a == b` on &str (match on &str constants is spelled as an if/else chain over this helper)
#[verifier::external_body]
pub fn verif_str_is(a: &str, b: &str) -> (r: bool) ensures r == (a@ == b@) { unimplemented!() }
/// OUTLINED `self.generics.iter().sorted().fold(Name::empty(), |acc, n| acc.union(n))`: the union of the generics
#[verifier::external_body]
pub fn verif_union_of(generics: &Vec<Name>) -> Name { unimplemented!() }
/// OUTLINED `self.generics.first()/.get(1) .cloned().unwrap_or_else(Name::empty)`
#[verifier::external_body]
pub fn verif_nth_or_empty(generics: &Vec<Name>, n: usize) -> Name { unimplemented!() }
/// clss::concrete_to_python (a table of &str constants)
#[verifier::external_body]
pub fn concrete_to_python(name: &str) -> String { unimplemented!() }

impl StringName {
//@@ FN src/generate/name.rs | impl ToPy for StringName | to_py | as=string_name_to_py | props=C16,C03
//@@ REPLACE deep
//@@< match self.name.as_str() { clss::UNION => $$, clss::TUPLE => { $$ } clss::CALLABLE => { $$ } other => { $$ } }
//@@> if verif_str_is(self.name.as_str(), clss::UNION) { $$1 } else if verif_str_is(self.name.as_str(), clss::TUPLE) { $$2 } else if verif_str_is(self.name.as_str(), clss::CALLABLE) { $$3 } else { let other = self.name.as_str(); $$4 }
//@@ HINT before
//@@< match self.name.as_str()
//@@> proof { reveal_strlit("Union"); reveal_strlit("Tuple"); reveal_strlit("Callable"); reveal_strlit("Any"); assert(clss::UNION@.len() == 5 && clss::TUPLE@.len() == 5 && clss::CALLABLE@.len() == 8 && clss::ANY@.len() == 3); assert(clss::UNION@[0] == 'U' && clss::TUPLE@[0] == 'T'); }
//@@ REPLACE pin=28692c020ceb
//@@< self .generics .iter() .sorted() .fold($$)
//@@> verif_union_of(&self.generics)
//@@ REPLACE
//@@< core_type(TUPLE, &self.generics, imp)
//@@> core_type(TUPLE, self.generics.as_slice(), imp)
//@@ REPLACE
//@@< self.generics.first().cloned().unwrap_or_else(Name::empty)
//@@> verif_nth_or_empty(&self.generics, 0)
//@@ REPLACE
//@@< self.generics.get(1).cloned().unwrap_or_else(Name::empty)
//@@> verif_nth_or_empty(&self.generics, 1)
//@@ REPLACE
//@@< core_type(CALLABLE, &[args, ret], imp)
//@@> core_type(CALLABLE, vec![args, ret].as_slice(), imp)
//@@ REPLACE
//@@< other == clss::$anyk
//@@> verif_str_is(other, clss::$anyk)
//@@ REPLACE
//@@< concrete_to_python(&self.name)
//@@> concrete_to_python(self.name.as_str())
//@@ REPLACE
//@@< core_type(&lit, &self.generics, imp)
//@@> core_type(lit.as_str(), self.generics.as_slice(), imp)
    ensures
        imp_grows(*old(imp), *final(imp)),                                          //# imports_only_grow [C16]
        self.name@ == clss::TUPLE@ ==> imp_has(*final(imp), "typing"@, TUPLE@) && (r matches Core::Type { lit, generics } && lit@ == TUPLE@),   //# a_tuple_type_is_emitted_as_typing_tuple_and_imported [C16]
        self.name@ == clss::CALLABLE@ ==> imp_has(*final(imp), "typing"@, CALLABLE@) && (r matches Core::Type { lit, generics } && lit@ == CALLABLE@),   //# a_function_type_is_emitted_as_typing_callable_and_imported [C16]
        self.name@ == clss::ANY@ ==> imp_has(*final(imp), "typing"@, ANY@),          //# any_is_imported_whenever_it_is_emitted [C16]
//@@ END
}

} // verus!

fn main() {}
