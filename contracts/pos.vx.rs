//@@ UNIT POS
// Unit POS — src/common/position.rs.  Function bodies are copied verbatim from /repo on every run.
#![allow(unused_imports, dead_code, unused_variables, non_snake_case)]
use vstd::prelude::*;
use std::cmp::{max, min, Ordering};

//@@ INCLUDE pos_types.inc.rs

verus! {

#[verifier::external_type_specification]
pub struct ExPosition(Position);
#[verifier::external_type_specification]
pub struct ExCaretPos(CaretPos);

//@@ INCLUDE pos_body.inc.rs
} // verus!

fn main() {}
