//@@ UNIT RENDER
// Unit RENDER — src/common/result.rs::{format_location, format_err}, Display for LexErr / ParseErr / TypeErr.
// Bodies copied verbatim from /repo on every run; format!/write!/writeln! lose their literal text and
// their effect on the Formatter, their ARGUMENT EXPRESSIONS are kept and checked (macro rewrite).
#![allow(unused_imports, dead_code, unused_variables, non_snake_case, unused_mut)]
use vstd::prelude::*;
use std::cmp::{max, min, Ordering};
use std::fmt;
use std::fmt::{Display, Formatter};
use std::path::{PathBuf, MAIN_SEPARATOR};

//@@ INCLUDE pos_types.inc.rs
//@@ TYPE src/common/result.rs | struct | Cause
//@@ TYPE src/parse/lex/result.rs | struct | LexErr
//@@ TYPE src/parse/lex/token.rs | struct | Lex
//@@ TYPE src/parse/lex/token.rs | enum | Token
//@@ TYPE src/parse/result.rs | struct | ParseErr
//@@ TYPE src/check/result.rs | struct | TypeErr | pubfields | strip_derive=Eq

verus! {

#[verifier::external_type_specification] pub struct ExPosition(Position);
#[verifier::external_type_specification] pub struct ExCaretPos(CaretPos);
#[verifier::external_type_specification] pub struct ExCause(Cause);
#[verifier::external_type_specification] pub struct ExLexErr(LexErr);
#[verifier::external_type_specification] pub struct ExLex(Lex);
#[verifier::external_type_specification] pub struct ExToken(Token);
#[verifier::external_type_specification] pub struct ExParseErr(ParseErr);
#[verifier::external_type_specification] pub struct ExTypeErr(TypeErr);
#[verifier::external_type_specification] #[verifier::external_body] pub struct ExPathBuf(PathBuf);
#[verifier::external_type_specification] #[verifier::external_body] pub struct ExFromUtf8Error(std::string::FromUtf8Error);
#[verifier::external_type_specification] #[verifier::external_body] pub struct ExLines<'a>(std::str::Lines<'a>);

// A-ARCH: 64-bit target (usize::MAX as i32 == -1 is what the renderer's index arithmetic relies on)
global size_of usize == 8;

//@@ INCLUDE pos_body.inc.rs

//@@ CONST src/common/result.rs | OFFSET_WIDTH
//@@ CONST src/parse/result.rs | SYNTAX_ERR_MAX_DEPTH

// ---- trusted std specifications (A-STD) ----------------------------------------------------------------
pub assume_specification[<Position as PartialEq>::eq](a: &Position, b: &Position) -> (r: bool) ensures r == (*a == *b);
/// bytes that are all ASCII are valid UTF-8
pub assume_specification[String::from_utf8](v: Vec<u8>) -> (r: Result<String, std::string::FromUtf8Error>)
    ensures (forall|i: int| 0 <= i < v@.len() ==> v@[i] < 128) ==> r is Ok;
pub assume_specification<'a>[<String as From<&'a str>>::from](s: &str) -> (r: String) ensures r@ == s@;
pub assume_specification<T, U, F: FnOnce(T) -> U>[Option::<T>::map_or](o: Option<T>, d: U, f: F) -> (r: U)
    requires o is Some ==> f.requires((o->Some_0,)),
    ensures o is None ==> r == d, o is Some ==> f.ensures((o->Some_0,), r);

/// text dropped by the format! rewrite / effect of write! on the Formatter
#[verifier::external_body] pub fn verif_opaque_string() -> String { unimplemented!() }
#[verifier::external_body] pub fn verif_opaque_fmt(f: &mut Formatter) -> fmt::Result { unimplemented!() }

// ---- str::lines(), outlined (A-STD) ------------------------------------------------------------------------
/// number of lines `str::lines()` yields; a text never has usize::MAX lines (it has at most isize::MAX bytes)
pub uninterp spec fn lines_count(s: Seq<char>) -> nat;
/// `source.lines().nth(n)` / `lines.clone().nth(n)`: Some exactly for indices below the line count
#[verifier::external_body]
pub fn verif_outline_nth_line<'a>(source: &'a String, n: usize) -> (r: Option<&'a str>)
    ensures (r is Some) == (n < lines_count(source@)), lines_count(source@) < usize::MAX,
{ unimplemented!() /* outlined text: source.lines().nth(n) */ }
#[verifier::external_body]
pub fn verif_outline_str_is_empty(s: &str) -> (r: bool)
{ unimplemented!() /* outlined text: line.is_empty() */ }

// ---- specification (C19 / C03) -----------------------------------------------------------------------------
pub open spec fn coord_ok(p: Position) -> bool {
    p.start.line < 0x7fff_0000 && p.start.pos < 0x7fff_0000 && p.end.line < 0x7fff_0000 && p.end.pos < 0x7fff_0000
}
/// A-POS: a position handed to a renderer is the invisible position, or its caret column is drawable
pub open spec fn drawable(p: Position, offset: usize) -> bool {
    p == invisible_spec() || offset * 4 + p.start.pos >= 1
}

//@@ FN src/common/result.rs | free | format_location | props=C19,C03
//@@ OUTLINE
//@@< let $lines = source.lines();
//@@> /* `source.lines()` is outlined into verif_outline_nth_line below */
//@@ OUTLINE count=3
//@@< $lines .clone() .nth($idx)
//@@> verif_outline_nth_line(source, $idx)
//@@ OUTLINE count=3
//@@< $line.is_empty()
//@@> verif_outline_str_is_empty($line)
//@@ CLOSURE count=3
//@@< |$line| {
//@@> |$line: &str| -> (s: String) requires 1 <= pos.start.line < usize::MAX {
//@@ HINT before
//@@< let $blp = $$; let $lp = $$; let $alp = max(pos.start.line, usize::MAX);
//@@> /* binds $blp $lp $alp: the three consecutive index computations */
//@@ HINT after
//@@< let $alp = max(pos.start.line, usize::MAX);
//@@> proof { assert(0xffff_ffff_ffff_ffffusize as i32 == -1i32) by (bit_vector); assert((-1i32) as usize == 0xffff_ffff_ffff_ffffusize) by (bit_vector); }
//@@ CLAIM after
//@@< let $alp = max(pos.start.line, usize::MAX);
//@@> assert(pos.start.line >= 1 ==> $lp == pos.start.line - 1);  //# quoted_line_is_the_reported_line [C19]
//@@ CLAIM after
//@@< let $alp = max(pos.start.line, usize::MAX);
//@@> assert(pos.start.line >= 2 ==> $blp == pos.start.line - 2);  //# line_before_is_the_previous_line [C19]
//@@ CLAIM after
//@@< let $alp = max(pos.start.line, usize::MAX);
//@@> assert(pos.start.line == 0 ==> $lp == usize::MAX);  //# no_line_quoted_for_line_0 [C19]
    requires coord_ok(pos), drawable(pos, offset), offset <= 0x1000,              //# position_is_drawable [C19,C03]
//@@ END

/// outline of `path.as_ref().map_or("<unknown>", |p| p.to_str().unwrap_or_default())` (PathBuf is opaque)
#[verifier::external_body]
pub fn verif_outline_path_str<'a>(path: &'a Option<PathBuf>) -> &'a str { unimplemented!() }
/// outline of `self.token.as_ref().map_or(1, |t| t.width())`; the caret run of a lexical error is at least...
/// nothing is assumed about the value (Token::width is under contract in unit LEX)
#[verifier::external_body]
pub fn verif_outline_token_width(t: &Option<Token>) -> (r: usize) { unimplemented!() }
/// outline of the range index `&v[lo..hi]`: the bounds obligation is KEPT as this helper's precondition
#[verifier::external_body]
pub fn verif_outline_slice<'a>(v: &'a Vec<Cause>, lo: usize, hi: usize) -> (r: &'a [Cause])
    requires lo <= hi <= v@.len(),
    ensures r@ == v@.subrange(lo as int, hi as int),
{ unimplemented!() /* outlined text: &v[lo..hi] */ }

pub open spec fn causes_ok(c: Seq<Cause>) -> bool { forall|i: int| 0 <= i < c.len() ==> coord_ok(#[trigger] c[i].pos) }

#[verifier::loop_isolation(false)]
//@@ FN src/common/result.rs | free | format_err | props=C19,C03
//@@ OUTLINE
//@@< path .as_ref() .map_or("<unknown>", |p| p.to_str().unwrap_or_default())
//@@> verif_outline_path_str(path)
//@@ OUTLINE count=2
//@@< path.strip_suffix(MAIN_SEPARATOR).unwrap_or(path)
//@@> path
//@@ CLOSURE
//@@< |$p| $p != $cause.pos
//@@> |$p: Position| -> (b: bool) { $p != $cause.pos }
//@@ LOOPINV
//@@< for $cause in causes
//@@> invariant causes_ok(causes@),
    requires
        pos matches Some(p) ==> coord_ok(p) && drawable(p, 0),                    //# main_position_is_drawable [C19,C03]
        causes_ok(causes@),                                                      //# cause_coordinates_small [C03]
//@@ END

impl LexErr {
//@@ FN src/parse/lex/result.rs | impl Display for LexErr | fmt | props=C19,C03
//@@ OUTLINE
//@@< source.lines().nth(self.pos.line - 1)
//@@> verif_outline_nth_line(source, self.pos.line - 1)
//@@ OUTLINE
//@@< self.path .clone() .map_or(String::from("<unknown>"), |p| p.display().to_string())
//@@> verif_opaque_string()
//@@ OUTLINE
//@@< self.token.as_ref().map_or(1, |t| t.width())
//@@> verif_outline_token_width(&self.token)
//@@ END
}

impl ParseErr {
//@@ FN src/parse/result.rs | impl Display for ParseErr | fmt | props=C19,C03
//@@ OUTLINE
//@@< &self.causes[0..
//@@> verif_outline_slice(&self.causes, 0,
//@@ OUTLINE
//@@< )];
//@@> ));
    requires
        coord_ok(self.pos) && drawable(self.pos, 0),                             //# main_position_is_drawable [C19,C03]
        causes_ok(self.causes@), self.causes@.len() < 0x7fff_0000,               //# cause_coordinates_small [C03]
//@@ END
}

impl TypeErr {
//@@ FN src/check/result.rs | impl Display for TypeErr | fmt | props=C19,C03
    requires
        self.pos matches Some(p) ==> coord_ok(p) && drawable(p, 0),              //# main_position_is_drawable [C19,C03]
        causes_ok(self.causes@),                                                 //# cause_coordinates_small [C03]
//@@ END
}

} // verus!

fn main() {}
