// ---- trusted std specifications (A-STD) ---------------------------------------------------
use vstd::std_specs::cmp::OrdSpec;
pub assume_specification<T: Ord>[std::cmp::max::<T>](a: T, b: T) -> (r: T)
    ensures T::obeys_cmp_spec() ==> r == (if a.cmp_spec(&b) == core::cmp::Ordering::Greater { a } else { b });
pub assume_specification<T: Ord>[std::cmp::min::<T>](a: T, b: T) -> (r: T)
    ensures T::obeys_cmp_spec() ==> r == (if a.cmp_spec(&b) == core::cmp::Ordering::Greater { b } else { a });

// ---- specification vocabulary (written from C18 / C19 / C03, not from the code) ------------
/// magnitude bound under which `usize -> i32 -> usize` round trips and sums of two are exact
pub open spec fn small(x: usize) -> bool { x < 0x4000_0000 }

pub open spec fn caret_lt(a: CaretPos, b: CaretPos) -> bool {
    a.line < b.line || (a.line == b.line && a.pos < b.pos)
}
pub open spec fn caret_le(a: CaretPos, b: CaretPos) -> bool {
    a.line < b.line || (a.line == b.line && a.pos <= b.pos)
}
pub open spec fn smin(a: usize, b: usize) -> usize { if a <= b { a } else { b } }
pub open spec fn smax(a: usize, b: usize) -> usize { if a >= b { a } else { b } }

/// the union of two rectangles is their bounding rectangle
pub open spec fn union_spec(a: Position, b: Position) -> Position {
    Position {
        start: CaretPos { line: smin(a.start.line, b.start.line), pos: smin(a.start.pos, b.start.pos) },
        end: CaretPos { line: smax(a.end.line, b.end.line), pos: smax(a.end.pos, b.end.pos) },
    }
}
pub open spec fn invisible_spec() -> Position {
    Position { start: CaretPos { line: 0, pos: 0 }, end: CaretPos { line: 0, pos: 0 } }
}
/// a position a renderer can draw: 1-indexed start, start not after end
pub open spec fn pos_wf(p: Position) -> bool {
    p.start.line >= 1 && p.start.pos >= 1 && p.start.line <= p.end.line && p.start.pos <= p.end.pos
}
pub open spec fn covers(outer: Position, inner: Position) -> bool {
    outer.start.line <= inner.start.line && outer.start.pos <= inner.start.pos
    && outer.end.line >= inner.end.line && outer.end.pos >= inner.end.pos
}

impl CaretPos {
//@@ FN src/common/position.rs | impl CaretPos | new
    ensures r.line == line, r.pos == pos,                                   //# new_fields [C18]
//@@ END
//@@ FN src/common/position.rs | impl CaretPos | start
    ensures r.line == 1, r.pos == 1,                                        //# start_is_1_1 [C18]
//@@ END
//@@ FN src/common/position.rs | impl CaretPos | offset
    requires
        self.line + offset.line >= 1, self.line + offset.line <= usize::MAX,
        self.pos + offset.pos >= 1, self.pos + offset.pos <= usize::MAX,
    ensures
        r.line == self.line + offset.line - 1,                              //# offset_line_exact [C18]
        r.pos == self.pos + offset.pos - 1,                                 //# offset_pos_exact [C18]
//@@ END
//@@ FN src/common/position.rs | impl CaretPos | offset_line
    requires small(self.line), small(offset),
    ensures
        r.line == self.line + offset,                                       //# line_moves_by_offset [C18,C19]
        r.pos == self.pos,                                                  //# column_kept [C18,C19]
//@@ END
//@@ FN src/common/position.rs | impl CaretPos | offset_pos
    requires self.pos + offset <= usize::MAX,
    ensures
        r.line == self.line,                                                //# line_kept [C18,C19]
        r.pos == self.pos + offset,                                         //# column_moves_by_offset [C18,C19]
//@@ END
//@@ FN src/common/position.rs | impl CaretPos | newline
    requires self.line < usize::MAX,
    ensures
        r.line == self.line + 1,                                            //# next_line [C18]
        r.pos == 1,                                                         //# column_one [C18]
//@@ END

// PartialOrd for CaretPos: the trait wrapper is dropped, the five methods are verified as
// inherent methods with their real bodies.
//@@ FN src/common/position.rs | impl PartialOrd for CaretPos | partial_cmp
    ensures
        r == Some(if *self == *other { Ordering::Equal }
                  else if caret_lt(*self, *other) { Ordering::Less } else { Ordering::Greater }),  //# cmp_lexicographic [C18]
//@@ END
//@@ FN src/common/position.rs | impl PartialOrd for CaretPos | lt
    ensures r == caret_lt(*self, *other),                                   //# lt_lexicographic [C18]
//@@ END
//@@ FN src/common/position.rs | impl PartialOrd for CaretPos | le
    ensures r == caret_le(*self, *other),                                   //# le_lexicographic [C18]
//@@ END
//@@ FN src/common/position.rs | impl PartialOrd for CaretPos | gt
    ensures r == caret_lt(*other, *self),                                   //# gt_lexicographic [C18]
//@@ END
//@@ FN src/common/position.rs | impl PartialOrd for CaretPos | ge
    ensures r == caret_le(*other, *self),                                   //# ge_lexicographic [C18]
//@@ END
}

impl Position {
//@@ FN src/common/position.rs | impl Position | new
    ensures r.start == start, r.end == end,                                 //# new_fields [C18,C19]
//@@ END
//@@ FN src/common/position.rs | impl Position | get_width
    requires self.start.pos < 0x8000_0000, self.end.pos < 0x8000_0000,
    ensures
        r >= 1,                                                             //# width_at_least_1 [C19]
        r as int == (if self.end.pos > self.start.pos { self.end.pos - self.start.pos }
                     else if self.start.pos > self.end.pos { self.start.pos - self.end.pos } else { 1 }),   //# width_is_abs_diff [C19]
//@@ END
//@@ FN src/common/position.rs | impl Position | invisible
    ensures r == invisible_spec(),                                          //# invisible_is_zero [C19]
//@@ END
//@@ FN src/common/position.rs | impl Position | offset
    requires
        self.start.line + offset.line >= 1, self.start.line + offset.line <= usize::MAX,
        self.start.pos + offset.pos >= 1, self.start.pos + offset.pos <= usize::MAX,
        self.end.line + offset.line >= 1, self.end.line + offset.line <= usize::MAX,
        self.end.pos + offset.pos >= 1, self.end.pos + offset.pos <= usize::MAX,
    ensures
        r.start.line == self.start.line + offset.line - 1,                  //# offset_start_line [C18]
        r.start.pos == self.start.pos + offset.pos - 1,                     //# offset_start_pos [C18]
        r.end.line == self.end.line + offset.line - 1,                      //# offset_end_line [C18]
        r.end.pos == self.end.pos + offset.pos - 1,                         //# offset_end_pos [C18]
//@@ END
//@@ FN src/common/position.rs | impl Position | union
    ensures r == union_spec(*self, other),                                  //# union_is_bounding_box [C19]
//@@ END
//@@ FN src/common/position.rs | impl From<CaretPos> for Position | from | as=from_caret
    ensures r.start == caret_pos, r.end == caret_pos,                       //# from_caret_is_point [C19]
//@@ END
}

// ---- lemmas over the contracts (property level) ----------------------------------------------
pub proof fn lemma_order_total(a: CaretPos, b: CaretPos)
    ensures
        !caret_lt(a, a),
        caret_lt(a, b) || a == b || caret_lt(b, a),
        !(caret_lt(a, b) && caret_lt(b, a)),
        caret_le(a, b) == (caret_lt(a, b) || a == b),
{}

pub proof fn lemma_order_transitive(a: CaretPos, b: CaretPos, c: CaretPos)
    requires caret_lt(a, b), caret_lt(b, c),
    ensures caret_lt(a, c),
{}

pub proof fn lemma_union_algebra(a: Position, b: Position, c: Position)
    ensures
        union_spec(a, b) == union_spec(b, a),
        union_spec(union_spec(a, b), c) == union_spec(a, union_spec(b, c)),
        union_spec(a, a) == a,
        covers(union_spec(a, b), a), covers(union_spec(a, b), b),
{}

/// C19: the union of two drawable positions is drawable ...
pub proof fn lemma_union_preserves_wf(a: Position, b: Position)
    requires pos_wf(a), pos_wf(b),
    ensures pos_wf(union_spec(a, b)),
{}

/// ... and the union with the invisible position is NOT (start column 0): the source of A-POS.
pub proof fn lemma_union_with_invisible_not_wf(a: Position)
    ensures !pos_wf(union_spec(invisible_spec(), a)), union_spec(invisible_spec(), a).start.pos == 0,
{}

