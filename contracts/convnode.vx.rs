//@@ UNIT CONVNODE
//@@ RLIMIT 40
// Unit CONVNODE — src/generate/convert/mod.rs::{convert_node, append_ret, append_assign, skip_assign,
// skip_return}, common.rs::convert_vec, CoreOp::try_from.  Bodies copied verbatim from /repo on every run.
// convert_def / convert_cntrl_flow / convert_call / convert_class / convert_builder / convert_handle /
// convert_range_slice are external here (convert_def and convert_range_slice are verified in unit CONVDEF,
// where convert_node is the external one: the two files never assume what the other proves about the same fn).
#![feature(allocator_api)]
#![allow(unused_imports, dead_code, unused_variables, non_snake_case, unused_mut)]
use vstd::prelude::*;
use std::convert::TryFrom;

//@@ INCLUDE conv_types.inc.rs
//@@ INCLUDE conv_imports_stub.inc.rs

verus! {

//@@ INCLUDE conv_ext.inc.rs

// ---- externals ---------------------------------------------------------------------------------------------

#[verifier::external_body] pub fn convert_def(ast: &ASTTy, imp: &mut Imports, state: &State, ctx: &Context) -> (r: GenResult)
    ensures forall|m: Seq<char>| imp_has(*old(imp), m) ==> imp_has(*final(imp), m) { unimplemented!() }
#[verifier::external_body] pub fn convert_cntrl_flow(ast: &ASTTy, imp: &mut Imports, state: &State, ctx: &Context) -> (r: GenResult)
    ensures forall|m: Seq<char>| imp_has(*old(imp), m) ==> imp_has(*final(imp), m) { unimplemented!() }
#[verifier::external_body] pub fn convert_call(ast: &ASTTy, imp: &mut Imports, state: &State, ctx: &Context) -> (r: GenResult)
    ensures forall|m: Seq<char>| imp_has(*old(imp), m) ==> imp_has(*final(imp), m) { unimplemented!() }
#[verifier::external_body] pub fn convert_class(ast: &ASTTy, imp: &mut Imports, state: &State, ctx: &Context) -> (r: GenResult)
    ensures forall|m: Seq<char>| imp_has(*old(imp), m) ==> imp_has(*final(imp), m) { unimplemented!() }
#[verifier::external_body] pub fn convert_builder(ast: &ASTTy, imp: &mut Imports, state: &State, ctx: &Context) -> (r: GenResult)
    ensures forall|m: Seq<char>| imp_has(*old(imp), m) ==> imp_has(*final(imp), m) { unimplemented!() }
#[verifier::external_body] pub fn convert_handle(ast: &ASTTy, imp: &mut Imports, state: &State, ctx: &Context) -> (r: GenResult)
    ensures forall|m: Seq<char>| imp_has(*old(imp), m) ==> imp_has(*final(imp), m) { unimplemented!() }
#[verifier::external_body] pub fn convert_range_slice(ast: &ASTTy, imp: &mut Imports, state: &State, ctx: &Context) -> (r: GenResult)
    ensures forall|m: Seq<char>| imp_has(*old(imp), m) ==> imp_has(*final(imp), m) { unimplemented!() }

/// stands for the havocked Dict arm loop of convert_node (pairs of converted key / value)
#[verifier::external_body]
pub fn verif_havoc_pairs(imp: &mut Imports) -> (r: GenResult<Vec<(Core, Core)>>)
    ensures forall|m: Seq<char>| imp_has(*old(imp), m) ==> imp_has(*final(imp), m),
{ unimplemented!() }

/// Mamba -> Python spelling of built-in names (Int -> int, ...): check/context/clss/mod.rs, a `match` on &str
pub uninterp spec fn py_name(s: Seq<char>) -> Seq<char>;
#[verifier::external_body]
pub fn concrete_to_python(name: &str) -> (r: String) ensures r@ == py_name(name@) { unimplemented!() }

impl UnimplementedErr {
    #[verifier::external_body]
    pub fn new(ast: &ASTTy, msg: &str) -> UnimplementedErr { unimplemented!() }
}
pub trait ToPy { fn to_py(&self, imp: &mut Imports) -> Core; }
impl ToPy for Name {
    #[verifier::external_body]
    fn to_py(&self, imp: &mut Imports) -> (r: Core) ensures forall|m: Seq<char>| imp_has(*old(imp), m) ==> imp_has(*final(imp), m) { unimplemented!() }
}
pub uninterp spec fn core_op_of(op: NodeOp) -> Option<CoreOp>;

/// abstract view of the import table: `import <module>` is registered (A-EXT: callees only add)
pub uninterp spec fn imp_has(i: Imports, module: Seq<char>) -> bool;
impl Imports {
    #[verifier::external_body]
    pub fn add_import(&mut self, import: &str)
        ensures imp_has(*final(self), import@), forall|m: Seq<char>| imp_has(*old(self), m) ==> imp_has(*final(self), m),
    { unimplemented!() }
}

// ---- specification: implicit return (C01) ------------------------------------------------------------------------
pub open spec fn is_ret_or_raise(c: Core) -> bool { c is Return || c is Raise }

/// "the value of a function's last expression is returned": what append_ret must produce.
/// (Match and TryExcept arms rebuild their cases through iterator chains; they are havocked and excluded.)
pub open spec fn ret_rel(c: Core, r: Core) -> bool
    decreases c
{
    match c {
        Core::Block { statements } =>
            if statements@.len() == 0 {
                r matches Core::Block { statements: s2 } && s2@.len() == 1
                    && (s2@[0] matches Core::Return { expr } && *expr == Core::None)
            } else {
                r matches Core::Block { statements: s2 } && s2@.len() == statements@.len()
                    && (forall|i: int| 0 <= i < statements@.len() - 1 ==> s2@[i] == statements@[i])
                    && ret_rel(statements@[statements@.len() - 1], s2@[s2@.len() - 1])
            },
        Core::IfElse { cond, then, el } =>
            r matches Core::IfElse { cond: c2, then: t2, el: e2 } && c2 == cond && ret_rel(*then, *t2) && ret_rel(*el, *e2),
        Core::Case { expr, body } =>
            r matches Core::Case { expr: x2, body: b2 } && x2 == expr && ret_rel(*body, *b2),
        Core::ExceptId { id, class, body } =>
            r matches Core::ExceptId { id: i2, class: c2, body: b2 } && i2 == id && c2 == class && ret_rel(*body, *b2),
        Core::Except { class, body } =>
            r matches Core::Except { class: c2, body: b2 } && c2 == class && ret_rel(*body, *b2),
        Core::Match { .. } => true,
        Core::TryExcept { .. } => true,
        Core::Return { .. } => r == c,
        Core::Raise { .. } => r == c,
        _ => r matches Core::Return { expr } && *expr == c,
    }
}


/// C01: "a function with a declared return type returns (or raises) on every path"
pub open spec fn all_paths_return(c: Core) -> bool
    decreases c
{
    match c {
        Core::Block { statements } => statements@.len() > 0 && all_paths_return(statements@[statements@.len() - 1]),
        Core::IfElse { cond, then, el } => all_paths_return(*then) && all_paths_return(*el),
        Core::Case { expr, body } => all_paths_return(*body),
        Core::ExceptId { id, class, body } => all_paths_return(*body),
        Core::Except { class, body } => all_paths_return(*body),
        Core::Match { .. } => true,        // havocked arm
        Core::TryExcept { .. } => true,    // havocked arm
        Core::Return { .. } => true,
        Core::Raise { .. } => true,
        _ => false,
    }
}

/// C01 "if/match as expression -> assignment in every branch": what append_assign must produce
pub open spec fn assign_rel(c: Core, r: Core, target: Core) -> bool
    decreases c
{
    match c {
        Core::Block { statements } =>
            if statements@.len() == 0 { r == c } else {
                r matches Core::Block { statements: s2 } && s2@.len() == statements@.len()
                    && (forall|i: int| 0 <= i < statements@.len() - 1 ==> s2@[i] == statements@[i])
                    && assign_rel(statements@[statements@.len() - 1], s2@[s2@.len() - 1], target)
            },
        Core::IfElse { cond, then, el } =>
            r matches Core::IfElse { cond: c2, then: t2, el: e2 } && c2 == cond && assign_rel(*then, *t2, target) && assign_rel(*el, *e2, target),
        Core::Case { expr, body } =>
            r matches Core::Case { expr: x2, body: b2 } && x2 == expr && assign_rel(*body, *b2, target),
        Core::ExceptId { id, class, body } =>
            r matches Core::ExceptId { id: i2, class: c2, body: b2 } && i2 == id && c2 == class && assign_rel(*body, *b2, target),
        Core::Except { class, body } =>
            r matches Core::Except { class: c2, body: b2 } && c2 == class && assign_rel(*body, *b2, target),
        Core::Match { .. } => true,
        Core::TryExcept { .. } => true,
        Core::Return { .. } => r == c,
        Core::Raise { .. } => r == c,
        Core::VarDef { .. } => r == c,
        Core::Assign { .. } => r == c,
        _ => r matches Core::VarDef { var, ty, expr } && *var == target && (expr matches Some(e) && *e == c),
    }
}

// ---- specification: expressions keep their structure and hence their meaning (C01 "operators") ----------------------
/// the integer / boolean expression fragment
pub open spec fn in_frag(a: ASTTy) -> bool
    decreases a
{
    match a.node {
        NodeTy::Int { lit } => true,
        NodeTy::Bool { lit } => true,
        NodeTy::Id { lit } => true,
        NodeTy::Add { left, right } => in_frag(*left) && in_frag(*right),
        NodeTy::Sub { left, right } => in_frag(*left) && in_frag(*right),
        NodeTy::Mul { left, right } => in_frag(*left) && in_frag(*right),
        NodeTy::Div { left, right } => in_frag(*left) && in_frag(*right),
        NodeTy::FDiv { left, right } => in_frag(*left) && in_frag(*right),
        NodeTy::Mod { left, right } => in_frag(*left) && in_frag(*right),
        NodeTy::Pow { left, right } => in_frag(*left) && in_frag(*right),
        NodeTy::Le { left, right } => in_frag(*left) && in_frag(*right),
        NodeTy::Leq { left, right } => in_frag(*left) && in_frag(*right),
        NodeTy::Ge { left, right } => in_frag(*left) && in_frag(*right),
        NodeTy::Geq { left, right } => in_frag(*left) && in_frag(*right),
        NodeTy::Eq { left, right } => in_frag(*left) && in_frag(*right),
        NodeTy::Neq { left, right } => in_frag(*left) && in_frag(*right),
        NodeTy::And { left, right } => in_frag(*left) && in_frag(*right),
        NodeTy::Or { left, right } => in_frag(*left) && in_frag(*right),
        NodeTy::Is { left, right } => in_frag(*left) && in_frag(*right),
        NodeTy::IsN { left, right } => in_frag(*left) && in_frag(*right),
        NodeTy::IsA { left, right } => in_frag(*left) && in_frag(*right),
        NodeTy::IsNA { left, right } => in_frag(*left) && in_frag(*right),
        NodeTy::BAnd { left, right } => in_frag(*left) && in_frag(*right),
        NodeTy::BOr { left, right } => in_frag(*left) && in_frag(*right),
        NodeTy::BXOr { left, right } => in_frag(*left) && in_frag(*right),
        NodeTy::BLShift { left, right } => in_frag(*left) && in_frag(*right),
        NodeTy::BRShift { left, right } => in_frag(*left) && in_frag(*right),
        NodeTy::In { left, right } => in_frag(*left) && in_frag(*right),
        NodeTy::Not { expr } => in_frag(*expr),
        NodeTy::AddU { expr } => in_frag(*expr),
        NodeTy::SubU { expr } => in_frag(*expr),
        NodeTy::BOneCmpl { expr } => in_frag(*expr),
        NodeTy::Sqrt { expr } => in_frag(*expr),
        _ => false,
    }
}

/// c is the structure-preserving image of a: every Mamba operator becomes the Python operator of the
/// same meaning, with the same operands in the same order; `isna` becomes `not isinstance`;
/// literals keep their digits, identifiers go through the Mamba->Python name table
pub open spec fn hom(a: ASTTy, c: Core) -> bool
    decreases a
{
    match a.node {
        NodeTy::Int { lit } => c matches Core::Int { int: i } && i@ == lit@,
        NodeTy::Bool { lit } => c matches Core::Bool { boolean } && boolean == lit,
        NodeTy::Id { lit } => c matches Core::Id { lit: l2 } && l2@ == py_name(lit@),
        NodeTy::Add { left, right } => c matches Core::Add { left: l, right: r } && hom(*left, *l) && hom(*right, *r),
        NodeTy::Sub { left, right } => c matches Core::Sub { left: l, right: r } && hom(*left, *l) && hom(*right, *r),
        NodeTy::Mul { left, right } => c matches Core::Mul { left: l, right: r } && hom(*left, *l) && hom(*right, *r),
        NodeTy::Div { left, right } => c matches Core::Div { left: l, right: r } && hom(*left, *l) && hom(*right, *r),
        NodeTy::FDiv { left, right } => c matches Core::FDiv { left: l, right: r } && hom(*left, *l) && hom(*right, *r),
        NodeTy::Mod { left, right } => c matches Core::Mod { left: l, right: r } && hom(*left, *l) && hom(*right, *r),
        NodeTy::Pow { left, right } => c matches Core::Pow { left: l, right: r } && hom(*left, *l) && hom(*right, *r),
        NodeTy::Le { left, right } => c matches Core::Le { left: l, right: r } && hom(*left, *l) && hom(*right, *r),
        NodeTy::Leq { left, right } => c matches Core::Leq { left: l, right: r } && hom(*left, *l) && hom(*right, *r),
        NodeTy::Ge { left, right } => c matches Core::Ge { left: l, right: r } && hom(*left, *l) && hom(*right, *r),
        NodeTy::Geq { left, right } => c matches Core::Geq { left: l, right: r } && hom(*left, *l) && hom(*right, *r),
        NodeTy::Eq { left, right } => c matches Core::Eq { left: l, right: r } && hom(*left, *l) && hom(*right, *r),
        NodeTy::Neq { left, right } => c matches Core::Neq { left: l, right: r } && hom(*left, *l) && hom(*right, *r),
        NodeTy::And { left, right } => c matches Core::And { left: l, right: r } && hom(*left, *l) && hom(*right, *r),
        NodeTy::Or { left, right } => c matches Core::Or { left: l, right: r } && hom(*left, *l) && hom(*right, *r),
        NodeTy::Is { left, right } => c matches Core::Is { left: l, right: r } && hom(*left, *l) && hom(*right, *r),
        NodeTy::IsN { left, right } => c matches Core::IsN { left: l, right: r } && hom(*left, *l) && hom(*right, *r),
        NodeTy::IsA { left, right } => c matches Core::IsA { left: l, right: r } && hom(*left, *l) && hom(*right, *r),
        NodeTy::IsNA { left, right } => c matches Core::Not { expr: e } && (*e matches Core::IsA { left: l, right: r } && hom(*left, *l) && hom(*right, *r)),
        NodeTy::BAnd { left, right } => c matches Core::BAnd { left: l, right: r } && hom(*left, *l) && hom(*right, *r),
        NodeTy::BOr { left, right } => c matches Core::BOr { left: l, right: r } && hom(*left, *l) && hom(*right, *r),
        NodeTy::BXOr { left, right } => c matches Core::BXOr { left: l, right: r } && hom(*left, *l) && hom(*right, *r),
        NodeTy::BLShift { left, right } => c matches Core::BLShift { left: l, right: r } && hom(*left, *l) && hom(*right, *r),
        NodeTy::BRShift { left, right } => c matches Core::BRShift { left: l, right: r } && hom(*left, *l) && hom(*right, *r),
        NodeTy::In { left, right } => c matches Core::In { left: l, right: r } && hom(*left, *l) && hom(*right, *r),
        NodeTy::Not { expr } => c matches Core::Not { expr: e } && hom(*expr, *e),
        NodeTy::AddU { expr } => c matches Core::AddU { expr: e } && hom(*expr, *e),
        NodeTy::SubU { expr } => c matches Core::SubU { expr: e } && hom(*expr, *e),
        NodeTy::BOneCmpl { expr } => c matches Core::BOneCmpl { expr: e } && hom(*expr, *e),
        NodeTy::Sqrt { expr } => c matches Core::Sqrt { expr: e } && hom(*expr, *e),
        _ => false,
    }
}

/// no pending "assign the result to" / "return the result" request
pub open spec fn plain(s: State) -> bool { s.must_assign_to is None && !s.is_last_must_be_ret }

//@@ FN src/generate/convert/mod.rs | free | skip_return
    ensures r == is_ret_or_raise(*core),                                         //# skip_return_iff_return_or_raise [C01]
//@@ END
//@@ FN src/generate/convert/mod.rs | free | skip_assign
    ensures r == (is_ret_or_raise(*core) || core is VarDef || core is Assign),   //# skip_assign_iff_ret_raise_def_assign [C01]
//@@ END

//@@ FN src/generate/convert/mod.rs | free | append_ret
//@@ HINT before
//@@< match core { Core::Block
//@@> proof { reveal_with_fuel(all_paths_return, 2); }
//@@ HAVOC
//@@< cases.iter().map(append_ret).collect()
//@@> verif_havoc::<Vec<Core>>()
//@@ HAVOC
//@@< except.iter().map(append_ret).collect()
//@@> verif_havoc::<Vec<Core>>()
    ensures ret_rel(*core, r),                                                   //# last_expression_is_returned [C01]
        all_paths_return(r),                                                     //# every_path_returns_or_raises [C01]
    decreases *core,
//@@ END

//@@ FN src/generate/convert/mod.rs | free | append_assign
//@@ HAVOC
//@@< cases .iter() .map(|c| append_assign(c, assign_to, name, imp)) .collect()
//@@> verif_havoc::<Vec<Core>>()
//@@ HAVOC
//@@< except .iter() .map(|e| append_assign(e, assign_to, name, imp)) .collect()
//@@> verif_havoc::<Vec<Core>>()
//@@ HAVOC
//@@< name.clone().map(|name| Box::from(name.to_py(imp)))
//@@> verif_havoc::<Option<Box<Core>>>()
    ensures assign_rel(*core, r, *assign_to),                                    //# every_branch_assigns_to_target [C01]
        forall|m: Seq<char>| imp_has(*old(imp), m) ==> imp_has(*final(imp), m),  //# imports_only_grow [C16]
    decreases *core,
//@@ END

impl State {
//@@ FN src/generate/convert/state.rs | impl State | expand_ty
    ensures r == (State { expand_ty: expand_ty, ..*self }),
//@@ END
//@@ FN src/generate/convert/state.rs | impl State | remove_ret
    ensures r == (State { is_remove_last_ret: remove_ret, ..*self }),
//@@ END
//@@ FN src/generate/convert/state.rs | impl State | is_last_must_be_ret
    ensures r == (State { is_last_must_be_ret: last_return, ..*self }),
//@@ END
//@@ FN src/generate/convert/state.rs | impl State | must_assign_to
    ensures
        r.annotate == self.annotate, r.is_last_must_be_ret == self.is_last_must_be_ret, r.expand_ty == self.expand_ty,
        r.interface == self.interface, r.tup == self.tup, r.tup_lit == self.tup_lit, r.def_as_fun_arg == self.def_as_fun_arg,
        r.is_remove_last_ret == self.is_remove_last_ret,
        must_assign_to is None ==> r.must_assign_to is None,
        must_assign_to matches Some(c) ==> r.must_assign_to == Some((*c, name)),
//@@ END
}

impl CoreOp {
//@@ FN src/generate/ast/node.rs | impl TryFrom<(&ASTTy, &NodeOp)> for CoreOp | try_from | as=try_from_node_op
//@@ SIG fn try_from_node_op(ast: &ASTTy, op: &NodeOp) -> (r: Result<CoreOp, UnimplementedErr>)
    ensures
        // C01 "operators": each compound assignment keeps its operator
        *op == NodeOp::Assign ==> r == Ok::<CoreOp, UnimplementedErr>(CoreOp::Assign),
        *op == NodeOp::Add ==> r == Ok::<CoreOp, UnimplementedErr>(CoreOp::AddAssign),
        *op == NodeOp::Sub ==> r == Ok::<CoreOp, UnimplementedErr>(CoreOp::SubAssign),
        *op == NodeOp::Mul ==> r == Ok::<CoreOp, UnimplementedErr>(CoreOp::MulAssign),
        *op == NodeOp::Div ==> r == Ok::<CoreOp, UnimplementedErr>(CoreOp::DivAssign),
        *op == NodeOp::Pow ==> r == Ok::<CoreOp, UnimplementedErr>(CoreOp::PowAssign),
        *op == NodeOp::BLShift ==> r == Ok::<CoreOp, UnimplementedErr>(CoreOp::BLShiftAssign),
        *op == NodeOp::BRShift ==> r == Ok::<CoreOp, UnimplementedErr>(CoreOp::BRShiftAssign),   //# compound_assignment_keeps_operator [C01]
//@@ END
}

#[verifier::loop_isolation(false)]
//@@ FN src/generate/convert/common.rs | free | convert_vec
//@@ ITERNAME
//@@< for ast in node_vec
//@@> for ast in it: node_vec
//@@ LOOPINV
//@@< for ast in node_vec
//@@> invariant result@.len() == it.index@, forall|m: Seq<char>| imp_has(*old(imp), m) ==> imp_has(*imp, m), forall|i: int| 0 <= i < it.index@ ==> (plain(*state) && in_frag(#[trigger] node_vec@[i]) ==> hom(node_vec@[i], result@[i])),
    ensures
        r matches Ok(v) ==> v@.len() == node_vec@.len()
            && forall|i: int| 0 <= i < v@.len() ==> (plain(*state) && in_frag(#[trigger] node_vec@[i]) ==> hom(node_vec@[i], v@[i])),   //# elementwise_conversion [C01,C17]
        forall|m: Seq<char>| imp_has(*old(imp), m) ==> imp_has(*final(imp), m),  //# imports_only_grow [C16]
    decreases node_vec@,
//@@ END

//@@ FN src/generate/convert/mod.rs | free | convert_node
//@@ HAVOC
//@@< for (from, to) in elements { let from = convert_node(from, imp, state, ctx)?; let to = convert_node(to, imp, state, ctx)?; converted.push((from, to)); }
//@@> converted = verif_havoc_pairs(imp)?;
//@@ OUTLINE
//@@< CoreOp::try_from((ast, op))?
//@@> CoreOp::try_from_node_op(ast, op)?
    ensures
        plain(*state) && in_frag(*ast) ==> (r matches Ok(c) ==> hom(*ast, c)),   //# expression_structure_preserved [C01]
        state.is_last_must_be_ret ==> (r matches Ok(c) ==> all_paths_return(c)),   //# declared_return_type_returns_on_every_path [C01,C11]
        ast.node is Sqrt ==> (r is Ok ==> imp_has(*final(imp), "math"@)),        //# sqrt_registers_math_import [C16]
        forall|m: Seq<char>| imp_has(*old(imp), m) ==> imp_has(*final(imp), m),  //# imports_only_grow [C16]
    decreases *ast,
//@@ END

//@@ INCLUDE conv_meaning.inc.rs
} // verus!

fn main() {}
