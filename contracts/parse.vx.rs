//@@ UNIT PARSE
// Unit PARSE — src/parse/mod.rs::<AST as FromStr>::from_str.  The body is iterator/closure code; everything after
// the call of the lexer is outlined into one helper.  What is verified is the data flow C19 needs: the token stream
// that is parsed (and whose positions end up in diagnostics) is the lexing of EXACTLY the text the caller supplied —
// the same text that lib.rs later attaches to the diagnostics and quotes lines from.
#![allow(unused_imports, dead_code, unused_variables, non_snake_case, unused_mut)]
use vstd::prelude::*;

pub struct Lex { _x: u8 }
pub struct LexErr { _x: u8 }
pub struct AST { _x: u8 }
pub struct ParseErr { _x: u8 }
pub type LexResult<T = Vec<Lex>> = Result<T, LexErr>;
pub type ParseResult<T = Box<AST>> = Result<T, Box<ParseErr>>;

verus! {

#[verifier::external_type_specification] #[verifier::external_body] pub struct ExLex(Lex);
#[verifier::external_type_specification] #[verifier::external_body] pub struct ExLexErr(LexErr);
#[verifier::external_type_specification] #[verifier::external_body] pub struct ExAST(AST);
#[verifier::external_type_specification] #[verifier::external_body] pub struct ExParseErr(ParseErr);

/// the lexer as a function of the text (tokenize is verified in unit LEX: positions are those of this text)
pub uninterp spec fn lex_of(text: Seq<char>) -> LexResult;
/// everything from_str does with the lexer's result (comment filter, parse_statements, Eof check, AST position)
pub uninterp spec fn parse_of(lexed: LexResult) -> ParseResult<AST>;

#[verifier::external_body]
pub fn tokenize(input: &str) -> (r: LexResult) ensures r == lex_of(input@) { unimplemented!() }

/// outline of the rest of from_str's body (closure/iterator chains, LexIterator, block::parse_statements)
#[verifier::external_body]
pub fn verif_outline_parse_rest(lexed: LexResult) -> (r: ParseResult<AST>) ensures r == parse_of(lexed) { unimplemented!() }

/// A-STD: str::trim and friends return SOME text; nothing says it is the same text
pub uninterp spec fn trimmed(s: Seq<char>) -> Seq<char>;
pub assume_specification[str::trim](s: &str) -> (r: &str) ensures r@ == trimmed(s@);
pub assume_specification[str::trim_end](s: &str) -> (r: &str) ensures r@ == trimmed(s@);
pub assume_specification[str::trim_start](s: &str) -> (r: &str) ensures r@ == trimmed(s@);

impl AST {
//@@ FN src/parse/mod.rs | impl FromStr for AST | from_str | props=C19
//@@ REPLACE pin=0a226a1025e0
//@@< let $tokens: Vec<Lex> = tokenize($$) $$ Ok(AST::new($$)) }
//@@> verif_outline_parse_rest(tokenize($$1)) }
    ensures r == parse_of(lex_of(input@)),                                       //# parsed_tokens_are_the_lexing_of_the_given_text [C19]
//@@ END
}

} // verus!

fn main() {}
