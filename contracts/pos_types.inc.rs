//@@ TYPE src/common/position.rs | struct | Position
//@@ TYPE src/common/position.rs | struct | CaretPos
