//@@ UNIT IDENT
// Unit IDENT — src/check/ident.rs: what an identifier pattern IS for the checker.  Units GENFLOW / GENCALL / GENDEF take
// `Identifier::fields` (which (mutable flag, name) pairs a pattern binds / a reassignment targets), `as_mutable` and the
// access-chain helpers as externals with uninterpreted results.  Here their real bodies are verified against recursive
// definitions: `fields` lists, in order, one pair per leaf of the pattern — the leaf's own flag and the LEFT-MOST name of its
// access chain; `as_mutable(m)` sets every leaf's flag to m and nothing else; `object` is the left-most name; `without_obj`
// strips exactly a leading `object.`.  The recursive closures of the tuple arms are spliced (closure splicing, DESIGN §2.1).
#![feature(allocator_api)]
#![allow(unused_imports, dead_code, unused_variables, non_snake_case, unused_mut)]
use vstd::prelude::*;
use std::ops::Deref;
use std::convert::TryFrom;

//@@ INCLUDE pos_types.inc.rs
//@@ TYPE src/parse/ast/mod.rs | struct | AST
//@@ TYPE src/parse/ast/mod.rs | type | OptAST
//@@ TYPE src/parse/ast/mod.rs | enum | Node
//@@ TYPE src/parse/ast/node_op.rs | enum | NodeOp
//@@ TYPE src/check/ident.rs | enum | Identifier
//@@ TYPE src/check/ident.rs | enum | IdentiCall
#[derive(Clone)]
pub struct TypeErr { _x: u8 }
pub type TypeResult<T> = Result<T, Vec<TypeErr>>;

verus! {

#[verifier::external_type_specification] pub struct ExPosition(Position);
#[verifier::external_type_specification] pub struct ExCaretPos(CaretPos);
#[verifier::external_type_specification] pub struct ExAST(AST);
#[verifier::external_type_specification] pub struct ExNode(Node);
#[verifier::external_type_specification] pub struct ExNodeOp(NodeOp);
#[verifier::external_type_specification] pub struct ExIdentifier(Identifier);
#[verifier::external_type_specification] pub struct ExIdentiCall(IdentiCall);
#[verifier::external_type_specification] #[verifier::external_body] pub struct ExTypeErr(TypeErr);
pub assume_specification[<IdentiCall as Clone>::clone](t: &IdentiCall) -> (r: IdentiCall) ensures r == *t;
pub assume_specification<T>[<Box<T> as From<T>>::from](t: T) -> (r: Box<T>) ensures *r == t;
pub assume_specification<T: ?Sized, A: core::alloc::Allocator>[<Box<T, A> as Deref>::deref](b: &Box<T, A>) -> (r: &T) ensures r == &**b;
#[verifier::external_body] pub fn verif_opaque_string() -> String { unimplemented!() }
impl TypeErr {
    #[verifier::external_body]
    pub fn new(position: Position, msg: &str) -> TypeErr { unimplemented!() }
}

// ---- specification ------------------------------------------------------------------------------------------------------------
/// the left-most leaf of an access chain `a.b.c`
pub open spec fn leftmost(c: IdentiCall) -> IdentiCall
    decreases c
{
    match c { IdentiCall::Iden(_) => c, IdentiCall::Call(instance, _) => leftmost(*instance) }
}
pub open spec fn leftmost_name(c: IdentiCall) -> Seq<char> {
    match leftmost(c) { IdentiCall::Iden(s) => s@, IdentiCall::Call(_, _) => Seq::empty() }
}
pub proof fn lemma_leftmost_is_a_leaf(c: IdentiCall)
    ensures leftmost(c) is Iden,
    decreases c
{
    match c { IdentiCall::Iden(_) => {}, IdentiCall::Call(instance, _) => lemma_leftmost_is_a_leaf(*instance) }
}
//@@ INCLUDE ident_spec.inc.rs
/// the (mutable flag, left-most name) pairs of a pattern, leaf by leaf, in order
pub open spec fn flds(i: Identifier) -> Seq<(bool, Seq<char>)>
    decreases i
{
    match i {
        Identifier::Single(m, call) => seq![(m, leftmost_name(call))],
        Identifier::Multi(ids) => flds_all(ids@, ids@.len() as int),
    }
}
pub open spec fn flds_all(ids: Seq<Identifier>, n: int) -> Seq<(bool, Seq<char>)>
    decreases ids, n
{
    if n <= 0 || n > ids.len() { Seq::empty() } else { flds_all(ids, n - 1) + flds(ids[n - 1]) }
}
pub open spec fn pairs_view(v: Seq<(bool, String)>) -> Seq<(bool, Seq<char>)> { Seq::new(v.len(), |k: int| (v[k].0, v[k].1@)) }
/// every leaf's flag set to m, everything else kept
pub open spec fn with_flag(i: Identifier, m: bool) -> Identifier
    decreases i
{
    match i {
        Identifier::Single(_, call) => Identifier::Single(m, call),
        Identifier::Multi(ids) => i,   // refined below by as_mutable_post (element-wise)
    }
}
pub open spec fn all_flags(i: Identifier, m: bool) -> bool { forall|k: int| 0 <= k < flds(i).len() ==> (#[trigger] flds(i)[k]).0 == m }

/// OUTLINED `str == object` (&String against &str) in the match guard of without_obj
#[verifier::external_body]
pub fn verif_string_is(a: &String, b: &str) -> (r: bool) ensures r == (a@ == b@) { unimplemented!() }

impl IdentiCall {
//@@ FN src/check/ident.rs | impl IdentiCall | object_rec | props=C07,C09,C03
    ensures r == leftmost(*self),                                                //# the_leftmost_leaf_of_the_chain [C07,C09]
    decreases *self
//@@ END
//@@ FN src/check/ident.rs | impl IdentiCall | object | props=C07,C09,C03
//@@ HINT before
//@@< match &self.object_rec() {
//@@> proof { lemma_leftmost_is_a_leaf(*self); }
    ensures r matches Ok(s) && s@ == leftmost_name(*self),                       //# the_object_of_a_chain_is_its_leftmost_name [C07,C09]
//@@ END
//@@ FN src/check/ident.rs | impl IdentiCall | without_obj | props=C09,C03
//@@ REPLACE
//@@< IdentiCall::Iden(str) if str == object =>
//@@> IdentiCall::Iden(str) if verif_string_is(str, object) =>
    ensures
        match stripped(*self, object@) { Some(c) => r == Ok::<IdentiCall, Vec<TypeErr>>(c), None => r is Err && r->Err_0@.len() >= 1 }, //# strips_exactly_a_leading_object [C09]
    decreases *self
//@@ END
}


// ---- Identifier::fields / as_mutable ---------------------------------------------------------------------------------------------
/// concatenation of the first n parts
pub open spec fn flat_n(vv: Seq<Vec<(bool, String)>>, n: int) -> Seq<(bool, Seq<char>)>
    decreases n
{
    if n <= 0 || n > vv.len() { Seq::empty() } else { flat_n(vv, n - 1) + pairs_view(vv[n - 1]@) }
}
pub proof fn lemma_flat_is_flds(ids: Seq<Identifier>, vv: Seq<Vec<(bool, String)>>, n: int)
    requires vv.len() == ids.len(), 0 <= n <= ids.len(), forall|k: int| 0 <= k < ids.len() ==> pairs_view(#[trigger] vv[k]@) == flds(ids[k]),
    ensures flat_n(vv, n) == flds_all(ids, n),
    decreases n
{
    if n > 0 { lemma_flat_is_flds(ids, vv, n - 1); }
}
/// A-REWRITE: `v.iter().map(f).collect::<TypeResult<Vec<_>>>()`: Ok with f's result per element, in order, iff f succeeds on every
/// element.  `val` is a ghost name for (the view of) f's result on an element.
#[verifier::external_body]
pub fn verif_map_results<F: Fn(&Identifier) -> TypeResult<Vec<(bool, String)>>>(v: &Vec<Identifier>, f: F, Ghost(val): Ghost<spec_fn(Identifier) -> Seq<(bool, Seq<char>)>>) -> (r: TypeResult<Vec<Vec<(bool, String)>>>)
    requires forall|x: Identifier| #[trigger] f.requires((&x,)),
        forall|x: Identifier, out: TypeResult<Vec<(bool, String)>>| #[trigger] f.ensures((&x,), out) ==> (out matches Ok(o) && pairs_view(o@) == val(x)),
    ensures r matches Ok(vv) && vv@.len() == v@.len() && forall|k: int| 0 <= k < v@.len() ==> pairs_view(#[trigger] vv@[k]@) == val(v@[k]),
{ unimplemented!() }
/// OUTLINED `parts.into_iter().flatten().collect()`: concatenation in order
#[verifier::external_body]
pub fn verif_flatten(parts: Vec<Vec<(bool, String)>>) -> (r: Vec<(bool, String)>)
    ensures pairs_view(r@) == flat_n(parts@, parts@.len() as int),
{ unimplemented!() }
/// A-REWRITE: `v.iter().map(f).collect::<Vec<Identifier>>()`: f's result per element, in order
#[verifier::external_body]
pub fn verif_map_idents<F: Fn(&Identifier) -> Identifier>(v: &Vec<Identifier>, f: F, Ghost(ok): Ghost<spec_fn(Identifier, Identifier) -> bool>) -> (r: Vec<Identifier>)
    requires forall|x: Identifier| #[trigger] f.requires((&x,)),
        forall|x: Identifier, out: Identifier| #[trigger] f.ensures((&x,), out) ==> ok(x, out),
    ensures r@.len() == v@.len(), forall|k: int| 0 <= k < v@.len() ==> ok(v@[k], #[trigger] r@[k]),
{ unimplemented!() }

/// same shape, same names, every flag m
pub open spec fn reflagged(a: Identifier, b: Identifier, m: bool) -> bool {
    flds(b).len() == flds(a).len() && forall|k: int| 0 <= k < flds(a).len() ==> (#[trigger] flds(b)[k]) == (m, flds(a)[k].1)
}
pub proof fn lemma_reflag_all(a: Seq<Identifier>, b: Seq<Identifier>, m: bool, n: int)
    requires a.len() == b.len(), 0 <= n <= a.len(), forall|k: int| 0 <= k < a.len() ==> reflagged(a[k], #[trigger] b[k], m),
    ensures flds_all(b, n).len() == flds_all(a, n).len(), forall|k: int| 0 <= k < flds_all(a, n).len() ==> (#[trigger] flds_all(b, n)[k]) == (m, flds_all(a, n)[k].1),
    decreases n
{
    if n > 0 {
        lemma_reflag_all(a, b, m, n - 1);
        assert(reflagged(a[n - 1], b[n - 1], m));
    }
}

/// concatenation of the first n parts
pub open spec fn cat_n(vv: Seq<Vec<IdentiCall>>, n: int) -> Seq<IdentiCall>
    decreases n
{
    if n <= 0 || n > vv.len() { Seq::empty() } else { cat_n(vv, n - 1) + vv[n - 1]@ }
}
pub proof fn lemma_cat_is_calls(ids: Seq<Identifier>, vv: Seq<Vec<IdentiCall>>, n: int)
    requires vv.len() == ids.len(), 0 <= n <= ids.len(), forall|k: int| 0 <= k < ids.len() ==> (#[trigger] vv[k])@ == calls_of(ids[k]),
    ensures cat_n(vv, n) == calls_all(ids, n),
    decreases n
{
    if n > 0 { lemma_cat_is_calls(ids, vv, n - 1); }
}
/// A-REWRITE: `v.iter().flat_map(f).collect()` with f returning a Vec: the concatenation of f's results, in order (ghost parts)
#[verifier::external_body]
pub fn verif_flat_map_calls<F: Fn(&Identifier) -> Vec<IdentiCall>>(v: &Vec<Identifier>, f: F, Ghost(val): Ghost<spec_fn(Identifier) -> Seq<IdentiCall>>) -> (r: (Vec<IdentiCall>, Ghost<Seq<Vec<IdentiCall>>>))
    requires forall|x: Identifier| #[trigger] f.requires((&x,)),
        forall|x: Identifier, out: Vec<IdentiCall>| #[trigger] f.ensures((&x,), out) ==> out@ == val(x),
    ensures r.1@.len() == v@.len(), forall|k: int| 0 <= k < v@.len() ==> (#[trigger] r.1@[k])@ == val(v@[k]), r.0@ == cat_n(r.1@, v@.len() as int),
{ unimplemented!() }

impl Identifier {
#[verifier::exec_allows_no_decreases_clause]
//@@ FN src/check/ident.rs | impl Identifier | all_calls | props=C09,C03
//@@ REPLACE deep
//@@< idens.iter().flat_map(|$id| $$).collect()
//@@> { let (verif_r, Ghost(verif_parts)) = verif_flat_map_calls(idens, |$id: &Identifier| -> (o: Vec<IdentiCall>) ensures /*# each_component_contributes_its_own_chains [C09] #*/ o@ == calls_of(*$id), { $$1 }, Ghost(|x: Identifier| calls_of(x))); proof { lemma_cat_is_calls(idens@, verif_parts, idens@.len() as int); } verif_r }
    ensures r@ == calls_of(*self),                                               //# one_chain_per_leaf_in_order [C09]
//@@ END
#[verifier::exec_allows_no_decreases_clause]
//@@ FN src/check/ident.rs | impl Identifier | fields | props=C07,C09,C03
//@@ REPLACE deep
//@@< ids .iter() .map(|$id| $$) .collect::<TypeResult<Vec<Vec<(bool, String)>>>>()?
//@@> verif_map_results(ids, |$id: &Identifier| -> (res: TypeResult<Vec<(bool, String)>>) ensures /*# each_component_contributes_its_own_fields [C07,C09] #*/ res matches Ok(o) && pairs_view(o@) == flds(*$id), { $$1 }, Ghost(|x: Identifier| flds(x)))?
//@@ REPLACE
//@@< ids.into_iter().flatten().collect()
//@@> verif_flatten(ids)
//@@ HINT before
//@@< let ids: Vec<Vec<(bool, String)>> =
//@@> let ghost orig = ids@;
//@@ HINT before
//@@< Ok(ids.into_iter().flatten().collect())
//@@> proof { lemma_flat_is_flds(orig, ids@, orig.len() as int); }
    ensures r matches Ok(v) && pairs_view(v@) == flds(*self),                    //# one_pair_per_leaf_its_flag_and_its_leftmost_name_in_order [C07,C09]
//@@ END
#[verifier::exec_allows_no_decreases_clause]
//@@ FN src/check/ident.rs | impl Identifier | as_mutable | props=C07,C03
//@@ REPLACE deep
//@@< idens.iter().map(|$id| $$).collect()
//@@> verif_map_idents(idens, |$id: &Identifier| -> (o: Identifier) ensures /*# each_component_is_reflagged [C07] #*/ reflagged(*$id, o, mutable), { $$1 }, Ghost(|x: Identifier, y: Identifier| reflagged(x, y, mutable)))
//@@ HINT before
//@@< let idens = $$;
//@@> let ghost orig = idens@;
//@@ HINT before
//@@< Identifier::Multi(idens) }
//@@> proof { lemma_reflag_all(orig, idens@, mutable, orig.len() as int); }
    ensures reflagged(*self, r, mutable),                                        //# every_leaf_gets_the_declared_flag_names_and_order_kept [C07]
//@@ END
}


// ---- Identifier::try_from: which pattern an AST denotes -----------------------------------------------------------------------------
/// the pairs a pattern AST binds: a name is a mutable leaf; `fin`/mutable marks on a sub-pattern re-flag ALL its leaves; a tuple
/// binds what its elements bind, in order
pub open spec fn pat(a: AST) -> Option<Seq<(bool, Seq<char>)>>
    decreases a
{
    match a.node {
        Node::Id { lit } => Some(seq![(true, lit@)]),
        Node::ExpressionType { expr, mutable, ty } => match pat(*expr) {
            Some(p) => Some(Seq::new(p.len(), |k: int| (mutable, p[k].1))),
            None => None,
        },
        Node::Tuple { elements } => pat_all(elements@, elements@.len() as int),
        _ => None,
    }
}
pub open spec fn pat_all(es: Seq<AST>, n: int) -> Option<Seq<(bool, Seq<char>)>>
    decreases es, n
{
    if n <= 0 || n > es.len() { Some(Seq::empty()) } else {
        match (pat_all(es, n - 1), pat(es[n - 1])) { (Some(a), Some(b)) => Some(a + b), _ => None }
    }
}
impl From<(bool, &str)> for Identifier {
    #[verifier::external_body]
    fn from(p: (bool, &str)) -> (r: Identifier) ensures flds(r) == seq![(p.0, p.1@)] { unimplemented!() }
}
impl From<&Vec<Identifier>> for Identifier {
    #[verifier::external_body]
    fn from(v: &Vec<Identifier>) -> (r: Identifier) ensures r == Identifier::Multi(*v) { unimplemented!() }
}
//@@ ASSUME src/check/ident.rs | impl From<(bool, &str)> for Identifier | from
//@@ ASSUME src/check/ident.rs | impl From<&Vec<Identifier>> for Identifier | from
/// A-REWRITE: `es.iter().map(f).collect::<Result<Vec<Identifier>, _>>()`: Ok with f's result per element, in order, iff f succeeds on
/// every element
#[verifier::external_body]
pub fn verif_map_try<F: Fn(&AST) -> TypeResult<Identifier>>(es: &Vec<AST>, f: F, Ghost(val): Ghost<spec_fn(AST) -> Option<Seq<(bool, Seq<char>)>>>) -> (r: TypeResult<Vec<Identifier>>)
    requires forall|x: AST| #[trigger] f.requires((&x,)),
        forall|x: AST, out: TypeResult<Identifier>| #[trigger] f.ensures((&x,), out) ==> (match val(x) { Some(p) => out matches Ok(i) && flds(i) == p, None => out is Err && out->Err_0@.len() >= 1 }),
    ensures
        r matches Ok(v) ==> v@.len() == es@.len() && forall|k: int| 0 <= k < es@.len() ==> val(es@[k]) == Some(flds(#[trigger] v@[k])),
        r is Err ==> r->Err_0@.len() >= 1 && exists|k: int| 0 <= k < es@.len() && val(#[trigger] es@[k]) is None,
{ unimplemented!() }
pub proof fn lemma_pat_all(es: Seq<AST>, v: Seq<Identifier>, n: int)
    requires v.len() == es.len(), 0 <= n <= es.len(), forall|k: int| 0 <= k < es.len() ==> pat(es[k]) == Some(flds(#[trigger] v[k])),
    ensures pat_all(es, n) == Some(flds_all(v, n)),
    decreases n
{
    if n > 0 { lemma_pat_all(es, v, n - 1); assert(pat(es[n - 1]) == Some(flds(v[n - 1]))); }
}
pub proof fn lemma_pat_all_none(es: Seq<AST>, k: int, n: int)
    requires 0 <= k < n <= es.len(), pat(es[k]) is None,
    ensures pat_all(es, n) is None,
    decreases n
{
    if n - 1 > k { lemma_pat_all_none(es, k, n - 1); }
}

impl Identifier {
#[verifier::exec_allows_no_decreases_clause]
//@@ FN src/check/ident.rs | impl TryFrom<&AST> for Identifier | try_from | props=C07,C09,C03
//@@ REPLACE deep
//@@< elements .iter() .map(Identifier::try_from) .collect::<Result<_, _>>()
//@@> { let verif_r = verif_map_try(elements, |verif_e: &AST| -> (res: TypeResult<Identifier>) ensures /*# each_element_denotes_its_own_pattern [C07,C09] #*/ (match pat(*verif_e) { Some(p) => res matches Ok(i) && flds(i) == p, None => res is Err && res->Err_0@.len() >= 1 }), { Identifier::try_from(verif_e) }, Ghost(|x: AST| pat(x))); proof { if verif_r is Err { let k = choose|k: int| 0 <= k < elements@.len() && pat(#[trigger] elements@[k]) is None; lemma_pat_all_none(elements@, k, elements@.len() as int); } } verif_r } /* `.map(path)` spelled as the closure `|e| path(e)` */
//@@ HINT before
//@@< let elements = $$?;
//@@> let ghost es_g = elements@;
//@@ HINT after
//@@< let elements = $$?;
//@@> proof { lemma_pat_all(es_g, elements@, es_g.len() as int); }
//@@ HINT after
//@@< let identifier = Identifier::try_from(expr.deref())?;
//@@> proof { assert(forall|res: Identifier| reflagged(identifier, res, *mutable) ==> flds(res) =~= Seq::new(flds(identifier).len(), |k: int| (*mutable, flds(identifier)[k].1))); }
    ensures
        match pat(*ast) { Some(p) => r matches Ok(i) && flds(i) == p, None => r is Err && r->Err_0@.len() >= 1 }, //# a_pattern_binds_its_names_in_order_marks_reflag_whole_subpatterns [C07,C09]
//@@ END
}

} // verus!

fn main() {}
