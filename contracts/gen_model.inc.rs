// ---- /repo functions whose contracts are ASSUMED in this model (bodies pinned: contracts/assume_pins.json) --------------------
//@@ ASSUME src/check/constrain/constraint/builder.rs | free | format_var_map
//@@ ASSUME src/check/constrain/constraint/builder.rs | impl ConstrBuilder | add
//@@ ASSUME src/check/constrain/constraint/builder.rs | impl ConstrBuilder | add_constr
//@@ ASSUME src/check/constrain/constraint/builder.rs | impl ConstrBuilder | add_constr_map
//@@ ASSUME src/check/constrain/constraint/builder.rs | impl ConstrBuilder | branch_point
//@@ ASSUME src/check/constrain/constraint/builder.rs | impl ConstrBuilder | branch
//@@ ASSUME src/check/constrain/constraint/builder.rs | impl ConstrBuilder | reset_branches
//@@ ASSUME src/check/constrain/constraint/builder.rs | impl ConstrBuilder | temp_name
//@@ ASSUME src/check/constrain/constraint/builder.rs | impl ConstrBuilder | insert_var

#[verifier::external_type_specification] pub struct ExPosition(Position);
#[verifier::external_type_specification] pub struct ExCaretPos(CaretPos);
#[verifier::external_type_specification] pub struct ExAST(AST);
#[verifier::external_type_specification] pub struct ExNode(Node);
#[verifier::external_type_specification] pub struct ExNodeOp(NodeOp);
#[verifier::external_type_specification] pub struct ExExpect(Expect);
#[verifier::external_type_specification] pub struct ExStringName(StringName);
#[verifier::external_type_specification] #[verifier::external_body] pub struct ExTrueName(TrueName);
#[verifier::external_type_specification] pub struct ExName(Name);
#[verifier::external_type_specification] pub struct ExExpected(Expected);
#[verifier::external_type_specification] #[verifier::external_body] pub struct ExConstraint(Constraint);
#[verifier::external_type_specification] #[verifier::external_body] pub struct ExContext(Context);
#[verifier::external_type_specification] #[verifier::external_body] pub struct ExTypeErr(TypeErr);
#[verifier::external_type_specification] #[verifier::external_body] #[verifier::accept_recursive_types(K)] #[verifier::accept_recursive_types(V)]
pub struct ExHashMap<K, V>(HashMap<K, V>);
#[verifier::external_type_specification] #[verifier::external_body] #[verifier::accept_recursive_types(T)]
pub struct ExHashSet<T>(HashSet<T>);
#[verifier::external_type_specification] #[verifier::external_body] #[verifier::accept_recursive_types(T)]
pub struct ExSetIter<T>(SetIter<T>);
#[verifier::external_type_specification] #[verifier::external_body] pub struct ExBuilderRest(BuilderRest);
#[verifier::external_type_specification] pub struct ExConstrBuilder(ConstrBuilder);
#[verifier::external_type_specification] pub struct ExEnvironment(Environment);

pub assume_specification[<Expected as Clone>::clone](t: &Expected) -> (r: Expected) ensures r == *t;
pub assume_specification[<StringName as Clone>::clone](t: &StringName) -> (r: StringName) ensures r == *t;
pub assume_specification[<Name as Clone>::clone](t: &Name) -> (r: Name) ensures r == *t;
pub assume_specification[<Environment as Clone>::clone](t: &Environment) -> (r: Environment) ensures r == *t;
pub assume_specification[<AST as Clone>::clone](t: &AST) -> (r: AST) ensures r == *t;
pub assume_specification<K: Clone, V: Clone>[<HashMap<K, V> as Clone>::clone](t: &HashMap<K, V>) -> (r: HashMap<K, V>) ensures r == *t;
pub assume_specification<T: Clone>[<HashSet<T> as Clone>::clone](t: &HashSet<T>) -> (r: HashSet<T>) ensures r == *t;
pub assume_specification<'a>[<String as From<&'a str>>::from](s: &str) -> (r: String) ensures r@ == s@;
pub assume_specification<'a, T: Clone>[<Vec<T> as From<&'a [T]>>::from](s: &[T]) -> (r: Vec<T>) ensures r@ == s@;
#[verifier::external_body] pub fn verif_opaque_string() -> String { unimplemented!() }

// ---- A-STD-COLL: std HashMap / HashSet behave as finite maps / sets (keys are Strings, compared by their text) ----------
pub uninterp spec fn hm<V>(m: HashMap<String, V>) -> Map<Seq<char>, V>;
pub uninterp spec fn hs<T>(s: HashSet<T>) -> Set<T>;
/// a HashSet<String> as a set of texts
pub uninterp spec fn hss(s: HashSet<String>) -> Set<Seq<char>>;

pub trait KeyLike { spec fn key(&self) -> Seq<char>; }
impl KeyLike for str { open spec fn key(&self) -> Seq<char> { self@ } }
impl KeyLike for String { open spec fn key(&self) -> Seq<char> { self@ } }

impl<V> HashMap<String, V> {
    #[verifier::external_body]
    pub fn get<Q: KeyLike + ?Sized>(&self, k: &Q) -> (r: Option<&V>)
        ensures r matches Some(v) ==> hm(*self).contains_key(k.key()) && hm(*self)[k.key()] == *v,
            r is None ==> !hm(*self).contains_key(k.key()),
    { unimplemented!() }
    #[verifier::external_body]
    pub fn insert(&mut self, k: String, v: V) -> (r: Option<V>) ensures hm(*final(self)) == hm(*old(self)).insert(k@, v) { unimplemented!() }
    #[verifier::external_body]
    pub fn remove<Q: KeyLike + ?Sized>(&mut self, k: &Q) -> (r: Option<V>) ensures hm(*final(self)) == hm(*old(self)).remove(k.key()) { unimplemented!() }
}
/// the elements a set-operation iterator yields
pub uninterp spec fn si<T>(s: SetIter<T>) -> Set<T>;
pub uninterp spec fn sis(s: SetIter<String>) -> Set<Seq<char>>;
impl HashSet<String> {
    #[verifier::external_body]
    pub fn new() -> (r: HashSet<String>) ensures hss(r) =~= Set::<Seq<char>>::empty() { unimplemented!() }
    #[verifier::external_body]
    pub fn remove<Q: KeyLike + ?Sized>(&mut self, k: &Q) -> (r: bool) ensures hss(*final(self)) == hss(*old(self)).remove(k.key()) { unimplemented!() }
    #[verifier::external_body]
    pub fn union(&self, o: &HashSet<String>) -> (r: SetIter<String>) ensures sis(r) == hss(*self).union(hss(*o)) { unimplemented!() }
    #[verifier::external_body]
    pub fn intersection(&self, o: &HashSet<String>) -> (r: SetIter<String>) ensures sis(r) == hss(*self).intersect(hss(*o)) { unimplemented!() }
}
impl HashSet<TrueName> {
    #[verifier::external_body]
    pub fn contains(&self, x: &TrueName) -> (r: bool) ensures r == hs(*self).contains(*x) { unimplemented!() }
    #[verifier::external_body]
    pub fn is_disjoint(&self, o: &HashSet<TrueName>) -> (r: bool) ensures r == hs(*self).disjoint(hs(*o)) { unimplemented!() }
    #[verifier::external_body]
    pub fn is_empty(&self) -> (r: bool) ensures r == (hs(*self).len() == 0) { unimplemented!() }
    #[verifier::external_body]
    pub fn union(&self, o: &HashSet<TrueName>) -> (r: SetIter<TrueName>) ensures si(r) == hs(*self).union(hs(*o)) { unimplemented!() }
}
impl<T> SetIter<T> {
    #[verifier::external_body]
    pub fn cloned(self) -> (r: SetIter<T>) ensures r == self { unimplemented!() }
}
impl SetIter<String> {
    #[verifier::external_body]
    pub fn collect(self) -> (r: HashSet<String>) ensures hss(r) == sis(self) { unimplemented!() }
}
impl SetIter<TrueName> {
    #[verifier::external_body]
    pub fn collect(self) -> (r: HashSet<TrueName>) ensures hs(r) == si(self) { unimplemented!() }
}
/// OUTLINED `vec![(mutable, expect.clone())].into_iter().collect::<HashSet<_>>()`
#[verifier::external_body]
pub fn verif_singleton(mutable: bool, expect: Expected) -> (r: HashSet<(bool, Expected)>) ensures hs(r) == set![(mutable, expect)] { unimplemented!() }
/// OUTLINED `self.vars.get(&var_name).cloned()`'s `.cloned()`
#[verifier::external_body]
pub fn verif_cloned<T: Clone>(o: Option<&T>) -> (r: Option<T>) ensures r == (match o { Some(t) => Some(*t), None => None }) { unimplemented!() }

/// A-FMT: format_var_map is a function of its arguments and the identity for offset 0 (the real body: String::from(var)
/// for 0, format!("{var}@{offset}") otherwise)
pub uninterp spec fn fmt_var(var: Seq<char>, off: usize) -> Seq<char>;
#[verifier::external_body]
pub fn format_var_map(var: &str, offset: &usize) -> (r: String)
    ensures r@ == fmt_var(var@, *offset), *offset == 0 ==> r@ == var@,
{ unimplemented!() }

// ---- Environment: specification -----------------------------------------------------------------------------------------
/// the key under which `var` is looked up: the environment's own shadowing offset wins over the builder's
pub open spec fn lookup_key(e: Environment, global: VarMapping, var: Seq<char>) -> Seq<char> {
    if hm(e.var_mapping).contains_key(var) { fmt_var(var, hm(e.var_mapping)[var]) }
    else if hm(global).contains_key(var) { fmt_var(var, hm(global)[var]) }
    else { var }
}
/// `var` is visible (defined) at this point
pub open spec fn visible(e: Environment, global: VarMapping, var: Seq<char>) -> bool {
    hm(e.vars).contains_key(lookup_key(e, global, var))
}
/// the shadowing offset a new definition of `var` gets
pub open spec fn next_offset(e: Environment, global: VarMapping, var: Seq<char>) -> int {
    if hm(e.var_mapping).contains_key(var) { hm(e.var_mapping)[var] + 1 }
    else if hm(global).contains_key(var) { hm(global)[var] as int }
    else { 0 }
}

//@@ IFDEF ENV_REAL
/// A-ARITH: a shadowing offset READ from a mapping is below usize::MAX (offsets start at 0 and grow by one per
/// definition of the same name; `*offset + 1` in insert_var cannot wrap for any program that fits in memory).  Invoked
/// only inside insert_var, on the mapping it reads.
#[verifier::external_body]
pub proof fn axiom_offsets_small(m: VarMapping)
    ensures forall|v: Seq<char>| hm(m).contains_key(v) ==> #[trigger] hm(m)[v] < usize::MAX,
{
}

impl Environment {
//@@ FN src/check/constrain/generate/env.rs | impl Environment | in_class
    ensures r == (Environment { class: Some(*class_name), ..*self }),            //# frame_only_class [C09,C08]
//@@ END
//@@ FN src/check/constrain/generate/env.rs | impl Environment | in_fun
    ensures r == (Environment { in_fun: in_fun, ..*self }),                      //# frame_only_in_fun [C09,C08]
//@@ END
//@@ FN src/check/constrain/generate/env.rs | impl Environment | is_def_mode
    ensures r == (Environment { is_def_mode: is_def_mode, ..*self }),            //# frame_only_is_def_mode [C09,C08]
//@@ END
//@@ FN src/check/constrain/generate/env.rs | impl Environment | is_destruct_mode
    ensures r == (Environment { is_destruct_mode: is_destruct_mode, ..*self }),  //# frame_only_is_destruct_mode [C09,C08]
//@@ END
//@@ FN src/check/constrain/generate/env.rs | impl Environment | is_expr
    ensures r == (Environment { is_expr: is_expr, ..*self }),                    //# frame_only_is_expr [C09,C08]
//@@ END
//@@ FN src/check/constrain/generate/env.rs | impl Environment | in_loop
    ensures r == (Environment { in_loop: true, ..*self }),                       //# frame_only_in_loop [C09,C08]
//@@ END
//@@ FN src/check/constrain/generate/env.rs | impl Environment | return_type
    ensures r == (Environment { return_type: Some(*return_type), ..*self }),     //# frame_only_return_type [C09,C08]
//@@ END
//@@ FN src/check/constrain/generate/env.rs | impl Environment | with_unassigned
    ensures r == (Environment { unassigned: unassigned, ..*self }),              //# frame_only_unassigned [C09,C08]
//@@ END
//@@ FN src/check/constrain/generate/env.rs | impl Environment | override_mapping
    ensures
        r == (Environment { var_mapping: r.var_mapping, ..*self }),              //# frame_only_var_mapping [C09,C08]
        hm(r.var_mapping) == hm(self.var_mapping).insert(var@, mapping),         //# mapping_is_overridden [C09]
//@@ END
//@@ FN src/check/constrain/generate/env.rs | impl Environment | get_var
//@@ REPLACE
//@@< self.vars.get(&var_name).cloned()
//@@> verif_cloned(self.vars.get(&var_name))
    ensures
        r is Some <==> visible(*self, *var_mapping, var@),                       //# lookup_succeeds_iff_visible [C09,C07]
        r matches Some(s) ==> s == hm(self.vars)[lookup_key(*self, *var_mapping, var@)], //# lookup_returns_the_current_definition [C09,C07]
//@@ END
//@@ FN src/check/constrain/generate/env.rs | impl Environment | insert_var
//@@ REPLACE
//@@< vec![(mutable, expect.clone())].into_iter().collect::<HashSet<_>>()
//@@> verif_singleton(mutable, expect.clone())
//@@ HINT before
//@@< let offset = if let Some($off) = self.var_mapping.get(var) {
//@@> proof { axiom_offsets_small(self.var_mapping); }
    ensures
        r == (Environment { vars: r.vars, var_mapping: r.var_mapping, ..*self }), //# frame_only_vars_and_mapping [C09,C08,C07]
        hm(r.var_mapping) == hm(self.var_mapping).insert(var@, next_offset(*self, *var_mapping, var@) as usize), //# new_definition_gets_the_next_offset [C09,C07]
        exists|s: HashSet<(bool, Expected)>| hs(s) == set![(mutable, *expect)]
            && hm(r.vars) == hm(self.vars).insert(fmt_var(var@, next_offset(*self, *var_mapping, var@) as usize), s), //# new_definition_is_recorded_and_nothing_is_forgotten [C09,C07]
//@@ END
//@@ FN src/check/constrain/generate/env.rs | impl Environment | remove_var
    ensures
        r == (Environment { vars: r.vars, ..*self }),                            //# frame_only_vars [C09,C08,C07]
        hm(r.vars) == hm(self.vars).remove(var@),                                //# only_the_named_entry_is_removed [C09,C07]
//@@ END
//@@ FN src/check/constrain/generate/env.rs | impl Environment | raises_caught
    ensures
        r == (Environment { raises_caught: r.raises_caught, ..*self }),          //# frame_only_raises_caught [C09,C08]
        hs(r.raises_caught) == hs(self.raises_caught).union(hs(*raises)),        //# caught_set_is_extended_by_exactly_the_given_classes [C08]
//@@ END
//@@ FN src/check/constrain/generate/env.rs | impl Environment | assigned_to
    ensures
        r == (Environment { unassigned: r.unassigned, ..*self }),                //# frame_only_unassigned [C09,C08]
        hss(r.unassigned) == hss(self.unassigned).remove(var@),                  //# only_the_assigned_field_is_discharged [C09]
//@@ END
//@@ FN src/check/constrain/generate/env.rs | impl Environment | union
    ensures
        r == (Environment { unassigned: r.unassigned, ..*self }),                //# frame_only_unassigned [C09,C08]
        hss(r.unassigned) == hss(self.unassigned).union(hss(other.unassigned)),  //# unassigned_in_either [C09]
//@@ END
//@@ FN src/check/constrain/generate/env.rs | impl Environment | intersection
    ensures
        r == (Environment { unassigned: r.unassigned, ..*self }),                //# frame_only_unassigned [C09,C08]
        hss(r.unassigned) == hss(self.unassigned).intersect(hss(other.unassigned)), //# unassigned_in_both [C09]
//@@ END
}
//@@ ELSE
impl Environment {
    // unit GENFLOW verifies these contracts on the real bodies; here they are assumed (assume-guarantee)
    #[verifier::external_body]
    pub fn get_var(&self, var: &str, var_mapping: &VarMapping) -> (r: Option<HashSet<(bool, Expected)>>)
        ensures r is Some <==> visible(*self, *var_mapping, var@),
            r matches Some(s) ==> s == hm(self.vars)[lookup_key(*self, *var_mapping, var@)],
    { unimplemented!() }
    #[verifier::external_body]
    pub fn insert_var(&self, mutable: bool, var: &str, expect: &Expected, var_mapping: &VarMapping) -> (r: Environment)
        ensures r == (Environment { vars: r.vars, var_mapping: r.var_mapping, ..*self }),
            hm(r.var_mapping) == hm(self.var_mapping).insert(var@, next_offset(*self, *var_mapping, var@) as usize),
            exists|s: HashSet<(bool, Expected)>| hs(s) == set![(mutable, *expect)]
                && hm(r.vars) == hm(self.vars).insert(fmt_var(var@, next_offset(*self, *var_mapping, var@) as usize), s),
    { unimplemented!() }
    #[verifier::external_body]
    pub fn assigned_to(&self, var: &String) -> (r: Environment)
        ensures r == (Environment { unassigned: r.unassigned, ..*self }), hss(r.unassigned) == hss(self.unassigned).remove(var@),
    { unimplemented!() }
}
//@@ ENDIF

// ---- lemmas over the Environment contracts (C09) ------------------------------------------------------------------------
/// a definition makes the name visible to every later lookup, whatever the builder's global mapping, and the lookup
/// returns the NEW definition (shadowing)
pub proof fn lemma_definition_is_visible(e: Environment, r: Environment, global: VarMapping, later: VarMapping, var: Seq<char>, s: HashSet<(bool, Expected)>)
    requires
        next_offset(e, global, var) <= usize::MAX,
        hm(r.var_mapping) == hm(e.var_mapping).insert(var, next_offset(e, global, var) as usize),
        hm(r.vars) == hm(e.vars).insert(fmt_var(var, next_offset(e, global, var) as usize), s),
    ensures
        visible(r, later, var),
        hm(r.vars)[lookup_key(r, later, var)] == s,
{
}
/// ... and forgets no other name that was visible, as long as the other name's key is not the new key
pub proof fn lemma_definition_keeps_others(e: Environment, r: Environment, global: VarMapping, var: Seq<char>, other: Seq<char>, s: HashSet<(bool, Expected)>)
    requires
        next_offset(e, global, var) <= usize::MAX,
        other != var,
        hm(r.var_mapping) == hm(e.var_mapping).insert(var, next_offset(e, global, var) as usize),
        hm(r.vars) == hm(e.vars).insert(fmt_var(var, next_offset(e, global, var) as usize), s),
        visible(e, global, other),
    ensures
        visible(r, global, other),
{
}

// ---- the constraint builder and the recursive generator with the ghost VISIT LOG -------------------------------------------
/// the successful visits so far: (node, environment it was checked in, environment it returned)
pub uninterp spec fn visits(b: ConstrBuilder) -> Set<(AST, Environment, Environment)>;
pub open spec fn visited(b: ConstrBuilder, a: AST, e: Environment, o: Environment) -> bool { visits(b).contains((a, e, o)) }
pub open spec fn seen(b: ConstrBuilder, a: AST, e: Environment) -> bool { exists|o: Environment| visited(b, a, e, o) }
/// no visit is forgotten (the second and third conjunct are consequences of the first, stated for the solver)
pub open spec fn mono(a: ConstrBuilder, b: ConstrBuilder) -> bool {
    &&& visits(a).subset_of(visits(b))
    &&& forall|x: AST, e: Environment, o: Environment| visited(a, x, e, o) ==> visited(b, x, e, o)
    &&& forall|x: AST, e: Environment| seen(a, x, e) ==> seen(b, x, e)
}

/// ghost CONSTRAINT LOG: the (parent, child) pairs added so far, in order: `parent >= child` must hold for acceptance
pub uninterp spec fn log(b: ConstrBuilder) -> Seq<(Expected, Expected)>;
pub open spec fn grows(a: ConstrBuilder, b: ConstrBuilder) -> bool {
    log(a).len() <= log(b).len() && (forall|i: int| 0 <= i < log(a).len() ==> #[trigger] log(b)[i] == log(a)[i])
        && forall|p: Expected, c: Expected| has(a, p, c) ==> has(b, p, c) /* consequence, stated for the solver */
}
pub open spec fn has(b: ConstrBuilder, parent: Expected, child: Expected) -> bool { log(b).contains((parent, child)) }
/// Expected::new(pos, &expect) / Expected::from(&AST): what the real constructors build (verified in unit GENFLOW)
pub open spec fn exp_new(pos: Position, e: Expect) -> Expected { Expected { pos: pos, expect: e, an_or_a: true } }
pub open spec fn exp_of(a: AST) -> Expected { exp_new(a.pos, Expect::Expression { ast: a }) }
pub open spec fn type_exp(pos: Position, n: Name) -> Expected { exp_new(pos, Expect::Type { name: n }) }
pub assume_specification[<Expect as Clone>::clone](t: &Expect) -> (r: Expect) ensures r == *t;

impl Expected {
//@@ IFDEF ENV_REAL
//@@ FN src/check/constrain/constraint/expected.rs | impl Expected | new
    ensures r == exp_new(pos, *expect),                                          //# constructor_builds_the_stated_expectation [C05,C09]
//@@ END
//@@ ELSE
    #[verifier::external_body]
    pub fn new(pos: Position, expect: &Expect) -> (r: Expected) ensures r == exp_new(pos, *expect) { unimplemented!() }
//@@ ENDIF
    #[verifier::external_body]
    pub fn none(pos: Position) -> Expected { unimplemented!() }
    #[verifier::external_body]
    pub fn any(pos: Position) -> Expected { unimplemented!() }
}
//@@ IFDEF ENV_REAL
/// the real body of `impl From<&AST> for Expected`, emitted as an inherent method (an inherent `Expected::from` takes
/// precedence at every call site and also serves `&Box<AST>` arguments by deref coercion, which is all the real
/// `From<&Box<AST>>` does); vstd's own trait-level specification of `From` is thereby not involved
impl Expected {
//@@ FN src/check/constrain/constraint/expected.rs | impl From<&AST> for Expected | from
    ensures r == exp_of(*ast),                                                   //# expectation_of_an_expression [C05,C09]
//@@ END
}
//@@ ELSE
impl From<&AST> for Expected {
    #[verifier::external_body]
    fn from(a: &AST) -> (r: Expected) ensures r == exp_of(*a) { unimplemented!() }
}
//@@ ENDIF
//@@ IFNDEF ENV_REAL
impl From<&Box<AST>> for Expected {
    #[verifier::external_body]
    fn from(a: &Box<AST>) -> (r: Expected) ensures r == exp_of(**a) { unimplemented!() }
}
//@@ ENDIF
impl Constraint {
    #[verifier::external_body]
    pub fn truthy(msg: &str, expected: &Expected) -> Constraint { unimplemented!() }
    #[verifier::external_body]
    pub fn undefined(msg: &str, expected: &Expected) -> Constraint { unimplemented!() }
}
impl TypeErr {
    #[verifier::external_body]
    pub fn new(position: Position, msg: &str) -> TypeErr { unimplemented!() }
}
/// the Name a type annotation denotes (Name::try_from(&AST), iterator code): a function of the annotation
pub uninterp spec fn name_of(a: AST) -> Name;
impl Name {
    #[verifier::external_body]
    pub fn try_from(a: &Box<AST>) -> (r: TypeResult<Name>) ensures r matches Ok(n) ==> n == name_of(**a), r is Err ==> r->Err_0@.len() >= 1 { unimplemented!() }
}
impl ConstrBuilder {
    #[verifier::external_body]
    pub fn add(&mut self, msg: &str, parent: &Expected, child: &Expected, env: &Environment)
        ensures visits(*final(self)) == visits(*old(self)), mono(*old(self), *final(self)) /* consequence */, final(self).var_mapping == old(self).var_mapping,
            log(*final(self)) == log(*old(self)).push((*parent, *child)),
            has(*final(self), *parent, *child), grows(*old(self), *final(self)) /* consequences of the line above, stated for the solver */,
    { unimplemented!() }
    #[verifier::external_body]
    pub fn add_constr(&mut self, constraint: &Constraint, env: &Environment)
        ensures visits(*final(self)) == visits(*old(self)), mono(*old(self), *final(self)) /* consequence */, final(self).var_mapping == old(self).var_mapping, grows(*old(self), *final(self)) { unimplemented!() }
    #[verifier::external_body]
    pub fn temp_name(&mut self) -> (r: Name)
        ensures visits(*final(self)) == visits(*old(self)), mono(*old(self), *final(self)) /* consequence */, final(self).var_mapping == old(self).var_mapping, log(*final(self)) == log(*old(self)), grows(*old(self), *final(self)) { unimplemented!() }
    /// records a shadowing offset in the GLOBAL mapping only
    #[verifier::external_body]
    pub fn insert_var(&mut self, var: &str)
        ensures visits(*final(self)) == visits(*old(self)), mono(*old(self), *final(self)) /* consequence */, log(*final(self)) == log(*old(self)), grows(*old(self), *final(self)) { unimplemented!() }
    #[verifier::external_body]
    pub fn branch_point(&mut self)
        ensures visits(*final(self)) == visits(*old(self)), mono(*old(self), *final(self)) /* consequence */, final(self).var_mapping == old(self).var_mapping, log(*final(self)) == log(*old(self)), grows(*old(self), *final(self)) { unimplemented!() }
    #[verifier::external_body]
    pub fn branch(&mut self, msg: &str, pos: Position)
        ensures visits(*final(self)) == visits(*old(self)), mono(*old(self), *final(self)) /* consequence */, final(self).var_mapping == old(self).var_mapping, log(*final(self)) == log(*old(self)), grows(*old(self), *final(self)) { unimplemented!() }
    #[verifier::external_body]
    pub fn reset_branches(&mut self)
        ensures visits(*final(self)) == visits(*old(self)), mono(*old(self), *final(self)) /* consequence */, final(self).var_mapping == old(self).var_mapping, log(*final(self)) == log(*old(self)), grows(*old(self), *final(self)) { unimplemented!() }
}
/// the recursive constraint generator (A-EXT): logs a successful visit, forgets none
#[verifier::external_body]
pub fn generate(ast: &AST, env: &Environment, ctx: &Context, constr: &mut ConstrBuilder) -> (r: Constrained)
    ensures
        mono(*old(constr), *final(constr)), grows(*old(constr), *final(constr)),
        r matches Ok(o) ==> visited(*final(constr), *ast, *env, o),
        r is Ok ==> seen(*final(constr), *ast, *env) /* consequence of the line above, stated for the solver (the Ok value is often discarded by the caller) */,
        r is Err ==> r->Err_0@.len() >= 1,
{ unimplemented!() }
