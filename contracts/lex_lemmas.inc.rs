// ---- property-level lemmas over the abstract lexer machine ----------------------------------------------
// The contracts of State::{space, newline, token, flush_indents} prove, for every concrete state,
// that the real functions move `abs(state)` exactly as step_space / step_nl / step_tok and emit
// net_indent(abs(state)) Indent-minus-Dedent tokens.  The private fields of State can only be changed
// through those functions, so every run of the lexer is a sequence of these events.  The lemmas below
// quantify over ALL such sequences (no bound).

pub enum Ev {
    Space,
    NL,
    Tok { w: int, b: int },   // a non-NL token: w columns wide, containing b line breaks
}

pub open spec fn ev_ok(e: Ev) -> bool {
    match e { Ev::Tok { w, b } => w >= 0 && b >= 0, _ => true }
}

pub open spec fn step(a: Abs, e: Ev) -> Abs {
    match e {
        Ev::Space => step_space(a),
        Ev::NL => step_nl(a),
        Ev::Tok { w, b } => step_tok(a, w, b),
    }
}

pub open spec fn run(a: Abs, evs: Seq<Ev>) -> Abs
    decreases evs.len()
{
    if evs.len() == 0 { a } else { step(run(a, evs.drop_last()), evs.last()) }
}

/// Indent minus Dedent tokens emitted along a run
pub open spec fn net(a: Abs, evs: Seq<Ev>) -> int
    decreases evs.len()
{
    if evs.len() == 0 { 0 } else {
        net(a, evs.drop_last()) + (match evs.last() { Ev::Tok { .. } => net_indent(run(a, evs.drop_last())), _ => 0 })
    }
}

/// line breaks consumed along a run
pub open spec fn breaks_in(evs: Seq<Ev>) -> int
    decreases evs.len()
{
    if evs.len() == 0 { 0 } else {
        breaks_in(evs.drop_last()) + (match evs.last() { Ev::NL => 1, Ev::Tok { w, b } => b, Ev::Space => 0 })
    }
}

pub open spec fn init() -> Abs { Abs { cur: 1, li: 1, ttl: false, line: 1, col: 1, nls: 0 } }

/// every token of the run sits at an indentation that is a multiple of four spaces
pub open spec fn aligned(a: Abs, evs: Seq<Ev>) -> bool
    decreases evs.len()
{
    if evs.len() == 0 { true } else {
        aligned(a, evs.drop_last())
        && (match evs.last() { Ev::Tok { .. } => (run(a, evs.drop_last()).li - 1) % 4 == 0, _ => true })
    }
}

pub open spec fn all_ok(evs: Seq<Ev>) -> bool { forall|i: int| 0 <= i < evs.len() ==> ev_ok(#[trigger] evs[i]) }

pub open spec fn abs_caret_le(a: Abs, b: Abs) -> bool {
    a.line < b.line || (a.line == b.line && a.col <= b.col)
}

pub proof fn lemma_run_split(a: Abs, x: Seq<Ev>, y: Seq<Ev>)
    ensures
        run(a, x + y) == run(run(a, x), y),
        net(a, x + y) == net(a, x) + net(run(a, x), y),
        breaks_in(x + y) == breaks_in(x) + breaks_in(y),
    decreases y.len(),
{
    if y.len() == 0 {
        assert(x + y =~= x);
    } else {
        assert((x + y).drop_last() =~= x + y.drop_last());
        lemma_run_split(a, x, y.drop_last());
    }
}

/// C18 "line numbers never drift": the caret line is the start line plus the line breaks consumed.
pub proof fn lemma_no_line_drift(a: Abs, evs: Seq<Ev>)
    ensures run(a, evs).line == a.line + breaks_in(evs),
    decreases evs.len(),
{
    if evs.len() > 0 { lemma_no_line_drift(a, evs.drop_last()); }
}

/// C18 "spans are ordered and non-overlapping": the caret never moves backwards, so a token that
/// starts at the caret starts at or after the end of every earlier span (State::token proves
/// start == caret-before and end == caret-after for each real token).
pub proof fn lemma_caret_monotone(a: Abs, evs: Seq<Ev>)
    requires all_ok(evs),
    ensures abs_caret_le(a, run(a, evs)),
    decreases evs.len(),
{
    if evs.len() > 0 {
        assert(all_ok(evs.drop_last())) by {
            assert forall|i: int| 0 <= i < evs.drop_last().len() implies ev_ok(#[trigger] evs.drop_last()[i]) by {
                assert(evs.drop_last()[i] == evs[i]);
            }
        }
        lemma_caret_monotone(a, evs.drop_last());
        assert(ev_ok(evs.last()));
    }
}

/// invariant carried by lemma_balance
pub open spec fn bal_inv(a: Abs) -> bool { a.cur >= 1 && (a.cur - 1) % 4 == 0 && a.li >= 1 }

pub proof fn lemma_li_ge_1(a: Abs, evs: Seq<Ev>)
    requires a.li >= 1,
    ensures run(a, evs).li >= 1,
    decreases evs.len(),
{
    if evs.len() > 0 { lemma_li_ge_1(a, evs.drop_last()); }
}

/// C18 "every indent is matched by a dedent before end of input" — for 4-aligned indentation:
/// after any run, 4 * (Indents - Dedents emitted so far) == cur - 1 >= 0, and flush_indents emits
/// exactly cur / 4 == (cur - 1) / 4 Dedents, so the stream is balanced and the depth never negative.
pub proof fn lemma_balance(a: Abs, evs: Seq<Ev>)
    requires bal_inv(a), aligned(a, evs),
    ensures
        bal_inv(run(a, evs)),
        4 * net(a, evs) == run(a, evs).cur - a.cur,
        run(a, evs).cur / 4 == (run(a, evs).cur - 1) / 4,
    decreases evs.len(),
{
    if evs.len() > 0 {
        let p = evs.drop_last();
        lemma_balance(a, p);
        lemma_li_ge_1(a, p);
        let m = run(a, p);
        match evs.last() {
            Ev::Tok { w, b } => {
                assert((m.li - 1) % 4 == 0);
                assert((m.li - m.cur) % 4 == 0) by (nonlinear_arith)
                    requires (m.li - 1) % 4 == 0, (m.cur - 1) % 4 == 0;
                if m.li >= m.cur {
                    assert(4 * ((m.li - m.cur) / 4) == m.li - m.cur) by (nonlinear_arith)
                        requires (m.li - m.cur) % 4 == 0, m.li >= m.cur;
                } else {
                    assert((m.cur - m.li) % 4 == 0) by (nonlinear_arith)
                        requires (m.li - 1) % 4 == 0, (m.cur - 1) % 4 == 0;
                    assert(4 * ((m.cur - m.li) / 4) == m.cur - m.li) by (nonlinear_arith)
                        requires (m.cur - m.li) % 4 == 0, m.cur > m.li;
                }
            },
            _ => {},
        }
    }
    let c = run(a, evs).cur;
    assert(c / 4 == (c - 1) / 4) by (nonlinear_arith) requires c >= 1, (c - 1) % 4 == 0;
}

/// whole-input corollary from the initial state: Indents - Dedents - flushed Dedents == 0
pub proof fn lemma_balance_from_init(evs: Seq<Ev>)
    requires aligned(init(), evs),
    ensures net(init(), evs) - run(init(), evs).cur / 4 == 0, net(init(), evs) >= 0,
{
    lemma_balance(init(), evs);
    let c = run(init(), evs).cur;
    assert(4 * net(init(), evs) == c - 1);
    assert(c / 4 == (c - 1) / 4);
    assert((c - 1) / 4 == net(init(), evs)) by (nonlinear_arith) requires 4 * net(init(), evs) == c - 1;
}

pub proof fn lemma_run_one(a: Abs, e: Ev)
    ensures
        run(a, seq![e]) == step(a, e),
        net(a, seq![e]) == (match e { Ev::Tok { .. } => net_indent(a), _ => 0 }),
{
    assert(seq![e].drop_last() =~= Seq::<Ev>::empty());
    assert(run(a, Seq::<Ev>::empty()) == a);
    assert(net(a, Seq::<Ev>::empty()) == 0);
    assert(seq![e].last() == e);
}

pub proof fn lemma_run_push(a: Abs, x: Seq<Ev>, e: Ev)
    ensures
        run(a, x.push(e)) == step(run(a, x), e),
        net(a, x.push(e)) == net(a, x) + (match e { Ev::Tok { .. } => net_indent(run(a, x)), _ => 0 }),
{
    assert(x.push(e).drop_last() =~= x);
    assert(x.push(e).last() == e);
}

// ---- C14: layout trivia ---------------------------------------------------------------------------------------
pub open spec fn spaces(k: nat) -> Seq<Ev> { Seq::new(k, |i: int| Ev::Space) }

pub proof fn lemma_spaces(a: Abs, k: nat)
    ensures run(a, spaces(k)) == (Abs { col: a.col + k, li: if a.ttl { a.li } else { a.li + k }, ..a }),
            net(a, spaces(k)) == 0, breaks_in(spaces(k)) == 0,
    decreases k,
{
    if k > 0 {
        assert(spaces(k).drop_last() =~= spaces((k - 1) as nat));
        lemma_spaces(a, (k - 1) as nat);
    }
}

/// the parts of the state that decide Indent/Dedent emission and everything later
pub open spec fn same_layout(x: Abs, y: Abs) -> bool { x.cur == y.cur && x.li == y.li && x.ttl == y.ttl && x.col == y.col }

/// L1: trailing spaces before a line break change nothing but the recorded column of the NL lexeme
pub proof fn lemma_trailing_spaces(a: Abs, k: nat)
    requires a.ttl,
    ensures run(a, spaces(k).push(Ev::NL)) == run(a, seq![Ev::NL]),
            net(a, spaces(k).push(Ev::NL)) == 0,
{
    lemma_spaces(a, k);
    lemma_run_push(a, spaces(k), Ev::NL);
    lemma_run_one(a, Ev::NL);
}

/// L2: a blank or whitespace-only line inserted at the start of a line only advances the line number
/// and buffers one more NL; indentation state (and hence every later Indent/Dedent) is unchanged
pub proof fn lemma_blank_line(a: Abs, k: nat)
    requires !a.ttl, a.li == 1, a.col == 1,
    ensures
        same_layout(run(a, spaces(k).push(Ev::NL)), a),
        run(a, spaces(k).push(Ev::NL)).line == a.line + 1,
        run(a, spaces(k).push(Ev::NL)).nls == a.nls + 1,
        net(a, spaces(k).push(Ev::NL)) == 0,
{
    lemma_spaces(a, k);
    assert(spaces(k).push(Ev::NL).drop_last() =~= spaces(k));
}

/// L3a: a trailing comment (a token after another token on the same line) emits no Indent/Dedent
/// and leaves the indentation state as it was
pub proof fn lemma_trailing_comment(a: Abs, k: nat, w: int)
    requires a.ttl, a.cur == a.li,
    ensures
        net(a, spaces(k).push(Ev::Tok { w, b: 0 })) == 0,
        run(a, spaces(k).push(Ev::Tok { w, b: 0 })).cur == a.cur,
        run(a, spaces(k).push(Ev::Tok { w, b: 0 })).li == a.li,
        run(a, spaces(k).push(Ev::Tok { w, b: 0 })).ttl,
{
    lemma_spaces(a, k);
    assert(spaces(k).push(Ev::Tok { w, b: 0 }).drop_last() =~= spaces(k));
}

/// L3b: a whole-line comment indented like the next statement: the Indent/Dedent tokens the
/// statement would have caused are emitted at the comment instead (same number, same sign), the
/// statement itself then emits none, and the final indentation state is identical
pub proof fn lemma_comment_line(a: Abs, k: nat, wc: int, w: int, b: int)
    requires !a.ttl, a.li == 1, a.col == 1,
    ensures
        net(a, spaces(k).push(Ev::Tok { w: wc, b: 0 }).push(Ev::NL) + spaces(k).push(Ev::Tok { w, b }))
            == net(a, spaces(k).push(Ev::Tok { w, b })),
        same_layout(run(a, spaces(k).push(Ev::Tok { w: wc, b: 0 }).push(Ev::NL) + spaces(k).push(Ev::Tok { w, b })),
                    run(a, spaces(k).push(Ev::Tok { w, b }))),
{
    let c = Ev::Tok { w: wc, b: 0 };
    let t = Ev::Tok { w, b };
    let first = spaces(k).push(c).push(Ev::NL);
    let second = spaces(k).push(t);
    lemma_spaces(a, k);
    lemma_run_push(a, spaces(k), c);
    lemma_run_push(a, spaces(k).push(c), Ev::NL);
    lemma_run_push(a, spaces(k), t);
    let m = run(a, first);
    lemma_spaces(m, k);
    lemma_run_push(m, spaces(k), t);
    lemma_run_split(a, first, second);
}

/// L4: a final newline does not change how many Dedents flush_indents emits (it depends on cur only)
pub proof fn lemma_final_newline(a: Abs)
    ensures run(a, seq![Ev::NL]).cur == a.cur,
{
    lemma_run_one(a, Ev::NL);
}
