//@@ INCLUDE pos_types.inc.rs
//@@ TYPE src/check/ast/mod.rs | struct | ASTTy
//@@ TYPE src/check/ast/mod.rs | type | OptASTTy
//@@ TYPE src/check/ast/mod.rs | type | OptName
//@@ TYPE src/check/ast/mod.rs | enum | NodeTy
//@@ TYPE src/parse/ast/node_op.rs | enum | NodeOp
//@@ TYPE src/generate/ast/node.rs | enum | Core
//@@ TYPE src/generate/ast/node.rs | enum | CoreOp
//@@ TYPE src/generate/ast/node.rs | enum | CoreFunOp
//@@ TYPE src/check/name/string_name/mod.rs | struct | StringName
//@@ TYPE src/generate/convert/state.rs | struct | State
//@@ TYPE src/generate/result.rs | type | GenResult

// opaque stand-ins for types the unit only passes around
#[derive(Debug, Clone, PartialEq, Eq, Hash, PartialOrd, Ord)]
pub struct Name { _x: u8 }
pub struct Context { _x: u8 }
pub struct UnimplementedErr { _x: u8 }
