//@@ INCLUDE pos_types.inc.rs
//@@ TYPE src/parse/ast/mod.rs | struct | AST
//@@ TYPE src/parse/ast/mod.rs | type | OptAST
//@@ TYPE src/parse/ast/mod.rs | enum | Node
//@@ TYPE src/parse/ast/node_op.rs | enum | NodeOp

/// stand-ins for std::collections::{HashMap, HashSet}: same names, so the copied struct and signatures are verbatim
#[derive(Clone, Debug)] pub struct HashMap<K, V> { _k: PhantomData<K>, _v: PhantomData<V> }
#[derive(Clone, Debug, PartialEq, Eq, Hash)] pub struct HashSet<T> { _t: PhantomData<T> }
impl<K, V> Default for HashMap<K, V> { fn default() -> Self { HashMap { _k: PhantomData, _v: PhantomData } } }
impl<T> Default for HashSet<T> { fn default() -> Self { HashSet { _t: PhantomData } } }
/// stand-in for the set-operation iterators (hash_set::Union / Intersection and Cloned<..> over them)
pub struct SetIter<T> { _t: PhantomData<T> }
pub type VarMapping = HashMap<String, usize>;

// opaque stand-ins
//@@ TYPE src/check/name/string_name/mod.rs | struct | StringName | strip_derive=PartialOrd,Ord
impl Default for StringName { fn default() -> Self { unimplemented!() } }
#[derive(Clone, Debug, Default, PartialEq, Eq, Hash)]
pub struct TrueName { _x: u8 }
//@@ TYPE src/check/name/mod.rs | struct | Name
// companions of the derives (the real ones are hand-written in check/name/mod.rs; not extracted, never called here)
impl PartialEq for Name { fn eq(&self, o: &Name) -> bool { unimplemented!() } }
impl std::hash::Hash for Name { fn hash<H: std::hash::Hasher>(&self, state: &mut H) { unimplemented!() } }
//@@ TYPE src/check/constrain/constraint/expected.rs | struct | Expected | pubfields
pub struct Constraint { _x: u8 }
//@@ TYPE src/check/constrain/constraint/expected.rs | enum | Expect
use crate::Expect::{Type, Expression, Function, Access, Field};
pub struct Context { _x: u8 }
#[derive(Clone)]
pub struct TypeErr { _x: u8 }
/// stand-in for the builder: the public field is real, everything private (constraint sets, branch bookkeeping, the
/// ghost logs are functions of it) is one opaque field — two builders with the same global mapping are NOT equal
pub struct BuilderRest { _x: u8 }
pub struct ConstrBuilder { pub verif_rest: BuilderRest, pub var_mapping: VarMapping }
//@@ TYPE src/check/constrain/generate/env.rs | struct | Environment
pub type TypeResult<T> = Result<T, Vec<TypeErr>>;
pub type Constrained<T = Environment> = Result<T, Vec<TypeErr>>;
