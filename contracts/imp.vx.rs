//@@ UNIT IMP
// Unit IMP — src/generate/convert/state.rs::Imports::{new, add_import, is_empty, imports},
// src/generate/mod.rs::gen_arguments.  Bodies copied verbatim from /repo on every run.
#![feature(allocator_api)]
#![allow(unused_imports, dead_code, unused_variables, non_snake_case, unused_mut)]
use vstd::prelude::*;
use std::collections::BTreeMap;

//@@ INCLUDE conv_types.inc.rs
//@@ TYPE src/generate/mod.rs | struct | GenArguments
//@@ TYPE src/generate/convert/state.rs | struct | Imports | pubfields | retype=from_imports:FromTable
/// stands for BTreeMap<String, Core> (filled by add_from_import through iterator chains; outside the subset)
pub struct FromTable { _x: u8 }

// ---- /repo functions with ASSUMED contracts in this unit (bodies pinned: contracts/assume_pins.json) ----------------------------
//@@ ASSUME src/generate/convert/state.rs | impl Imports | add_from_import
verus! {

#[verifier::external_type_specification] pub struct ExPosition(Position);
#[verifier::external_type_specification] pub struct ExCaretPos(CaretPos);
#[verifier::external_type_specification] pub struct ExASTTy(ASTTy);
#[verifier::external_type_specification] pub struct ExNodeTy(NodeTy);
#[verifier::external_type_specification] pub struct ExNodeOp(NodeOp);
#[verifier::external_type_specification] pub struct ExCore(Core);
#[verifier::external_type_specification] pub struct ExCoreOp(CoreOp);
#[verifier::external_type_specification] pub struct ExCoreFunOp(CoreFunOp);
#[verifier::external_type_specification] pub struct ExStringName(StringName);
#[verifier::external_type_specification] pub struct ExState(State);
#[verifier::external_type_specification] pub struct ExGenArguments(GenArguments);
#[verifier::external_type_specification] #[verifier::external_body] pub struct ExName(Name);
#[verifier::external_type_specification] #[verifier::external_body] pub struct ExContext(Context);
#[verifier::external_type_specification] #[verifier::external_body] pub struct ExUnimplementedErr(UnimplementedErr);

pub assume_specification<'a>[<String as From<&'a str>>::from](s: &str) -> (r: String) ensures r@ == s@;
pub assume_specification[<Core as Clone>::clone](t: &Core) -> (r: Core) ensures r == *t;
pub assume_specification[<State as Clone>::clone](t: &State) -> (r: State) ensures r == *t;
// A-STD: slice::contains is membership (with structural == on Core, A-DERIVE)
pub assume_specification<T: PartialEq>[<[T]>::contains](s: &[T], x: &T) -> (r: bool) ensures r == s@.contains(*x);
pub assume_specification[<Core as PartialEq>::eq](a: &Core, b: &Core) -> (r: bool) ensures r == (*a == *b);

// ---- the import table.  `from_imports` (a BTreeMap filled by add_from_import through iterator chains) is
// abstracted: its contents are the uninterpreted sequence from_values(..) --------------------------------------
#[verifier::external_type_specification] pub struct ExImports(Imports);
#[verifier::external_type_specification] #[verifier::external_body] pub struct ExFromTable(FromTable);
pub uninterp spec fn from_values(t: FromTable) -> Seq<Core>;
pub uninterp spec fn from_table_empty(t: FromTable) -> bool;

impl FromTable {
    #[verifier::external_body]
    pub fn new() -> (r: FromTable) ensures from_values(r) == Seq::<Core>::empty(), from_table_empty(r) { unimplemented!() }
    #[verifier::external_body]
    pub fn is_empty(&self) -> (r: bool) ensures r == from_table_empty(*self), r ==> from_values(*self).len() == 0 { unimplemented!() }
}
/// outline of `self.from_imports.clone().into_values().collect()` (text unchanged in /repo)
#[verifier::external_body]
pub fn verif_outline_from_values(t: &FromTable) -> (r: Vec<Core>) ensures r@ == from_values(*t) { unimplemented!() }
/// outline of `a.into_iter().chain(b).collect()`: concatenation (std semantics)
#[verifier::external_body]
pub fn verif_outline_chain(a: Vec<Core>, b: Vec<Core>) -> (r: Vec<Core>)
    ensures r@ == a@ + b@, a@.is_prefix_of(r@) /* a consequence of the first clause, stated for the solver */
{ unimplemented!() }

/// the statement `import <name>`
pub open spec fn plain_import(c: Core, name: Seq<char>) -> bool {
    c matches Core::Import { from, import, alias }
    && from is None && alias@.len() == 0 && import@.len() == 1
    && (import@[0] matches Core::Id { lit } && lit@ == name)
}
pub open spec fn no_dup(s: Seq<Core>) -> bool { forall|i: int, j: int| 0 <= i < j < s.len() ==> s[i] != s[j] }

/// all statements the table stands for, in emission order
pub open spec fn table_statements(i: Imports) -> Seq<Core> { i.imports@ + from_values(i.from_imports) }

/// A-EXT: the statements convert_node leaves in the import table are a function of its arguments and of
/// what the table held before
pub uninterp spec fn conv_imports(ast: ASTTy, state: State, ctx: Context, before: Seq<Core>) -> Seq<Core>;
#[verifier::external_body]
pub fn convert_node(ast: &ASTTy, imp: &mut Imports, state: &State, ctx: &Context) -> (r: GenResult)
    ensures table_statements(*final(imp)) == conv_imports(*ast, *state, *ctx, table_statements(*old(imp))),
{ unimplemented!() }

pub open spec fn state_new() -> State {
    State { tup: 1, interface: false, expand_ty: true, def_as_fun_arg: false, tup_lit: false,
            is_last_must_be_ret: false, is_remove_last_ret: false, must_assign_to: None, annotate: false }
}

impl Imports {
//@@ FN src/generate/convert/state.rs | impl Imports | new
//@@ OUTLINE
//@@< BTreeMap::new()
//@@> FromTable::new()
    ensures r.imports@.len() == 0, table_statements(r) =~= Seq::<Core>::empty(),   //# new_table_is_empty [C16]
//@@ END

//@@ FN src/generate/convert/state.rs | impl Imports | add_import
//@@ HINT before
//@@< let import = Core::Import
//@@> let ghost name0 = import@;
//@@ HINT after
//@@< alias: vec![], };
//@@> proof { assert(plain_import(import, name0)); if self.imports@.contains(import) { let k = choose|k: int| 0 <= k < self.imports@.len() && self.imports@[k] == import; assert(plain_import(self.imports@[k], name0)); } } let ghost gimp = import;
//@@ HINT before
//@@< } }
//@@> proof { assert(final(self).imports@.last() == gimp); }
    requires no_dup(old(self).imports@),
    ensures
        exists|k: int| 0 <= k < final(self).imports@.len() && plain_import(#[trigger] final(self).imports@[k], import@),   //# import_is_registered [C16]
        old(self).imports@.is_prefix_of(final(self).imports@),                   //# nothing_is_forgotten [C16]
        final(self).imports@.len() <= old(self).imports@.len() + 1,
        no_dup(final(self).imports@),                                            //# registered_exactly_once [C16]
        final(self).from_imports == old(self).from_imports,                      //# from_table_untouched [C16]
//@@ END

//@@ FN src/generate/convert/state.rs | impl Imports | is_empty
    ensures r == (self.imports@.len() == 0 && from_table_empty(self.from_imports)),   //# empty_iff_both_tables_empty [C16]
        r ==> table_statements(*self).len() == 0,                                //# empty_table_emits_nothing [C16]
//@@ END

//@@ FN src/generate/convert/state.rs | impl Imports | imports
//@@ OUTLINE
//@@< self.from_imports.clone().into_values().collect()
//@@> verif_outline_from_values(&self.from_imports)
    ensures r@ == table_statements(*self),                                       //# all_registered_imports_are_emitted [C16]
//@@ END
}

impl State {
//@@ FN src/generate/convert/state.rs | impl State | new
    ensures r == state_new(),                                                    //# default_state [C11]
//@@ END
//@@ FN src/generate/convert/state.rs | impl From<&GenArguments> for State | from | as=from_gen_arguments
    ensures r == (State { annotate: gen_arguments.annotate, ..state_new() }),    //# flag_copied_from_arguments [C11]
//@@ END
}

//@@ FN src/generate/mod.rs | free | gen_arguments
//@@ OUTLINE
//@@< State::from(gen_args)
//@@> State::from_gen_arguments(gen_args)
//@@ OUTLINE
//@@< import.imports().into_iter().chain(statements).collect()
//@@> verif_outline_chain(import.imports(), statements)
//@@ OUTLINE
//@@< import.imports().into_iter().chain(vec![other]).collect()
//@@> verif_outline_chain(import.imports(), vec![other])
    ensures
        // C16 "imported at the top of that module, before first use": every statement convert_node left in the
        // import table is emitted as a prefix of the module block — or there was nothing to import
        r matches Ok(c) ==> ({
            let table = conv_imports(*ast_ty, State { annotate: gen_args.annotate, ..state_new() }, *ctx, Seq::<Core>::empty());
            (c matches Core::Block { statements } && table.is_prefix_of(statements@)) || table.len() == 0
        }),                                                                      //# imports_prepended_to_module [C16]
//@@ END

} // verus!

fn main() {}
