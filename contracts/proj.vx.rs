//@@ UNIT PROJ
// Unit PROJ — src/lib.rs::transpile_dir, the function that turns a project directory into an output directory, and
// From<&Arguments> for PipelineArguments.  The file system is an external: listing (io::relative_files), reading
// (io::read_source) and the path queries are named by uninterpreted functions of their arguments (A-FS: consistent within one
// call — nothing is written before the last read); WRITING Python (io::write_source) is recorded in a ghost log on a
// stand-in `Fs` that a declared signature edit adds as a parameter (the only way a postcondition can speak about an effect).
// The pipeline (mamba_to_python, unit PIPE) is an external named by `pipeline_of`.  Verified: the plumbing, for any number
// of files — C13: Python is written only if the pipeline accepted ALL files; on success exactly one write per listed file,
// to <out>/<relative path>.py, with output i, in order, nothing else; the pipeline is fed text i read from <src>/<relative
// path i> together with that path, and the caller's flag.
#![feature(allocator_api)]
#![allow(unused_imports, dead_code, unused_variables, non_snake_case, unused_mut)]
use vstd::prelude::*;
use vstd::std_specs::iter::IteratorSpec;

//@@ TYPE src/lib.rs | struct | Arguments
//@@ TYPE src/lib.rs | struct | PipelineArguments
/// stand-ins of the same names for std::path / std::ffi / std::io types (opaque)
pub struct Path { _x: u8 }
pub struct PathBuf { _x: u8 }
pub struct OsString { _x: u8 }
pub struct OsStr { _x: u8 }
pub struct PathDisplay { _x: u8 }
pub struct IoError { _x: u8 }
/// the file system as far as emitted Python goes (ghost log of write attempts)
pub struct Fs { _x: u8 }

// ---- /repo functions with ASSUMED contracts in this unit (bodies pinned: contracts/assume_pins.json) ----------------------------
//@@ ASSUME src/io.rs | free | relative_files
//@@ ASSUME src/io.rs | free | read_source
//@@ ASSUME src/io.rs | free | write_source
verus! {

#[verifier::external_type_specification] pub struct ExArguments(Arguments);
#[verifier::external_type_specification] pub struct ExPipelineArguments(PipelineArguments);
#[verifier::external_type_specification] #[verifier::external_body] pub struct ExPath(Path);
#[verifier::external_type_specification] #[verifier::external_body] pub struct ExPathBuf(PathBuf);
#[verifier::external_type_specification] #[verifier::external_body] pub struct ExOsString(OsString);
#[verifier::external_type_specification] #[verifier::external_body] pub struct ExOsStr(OsStr);
#[verifier::external_type_specification] #[verifier::external_body] pub struct ExPathDisplay(PathDisplay);
#[verifier::external_type_specification] #[verifier::external_body] pub struct ExIoError(IoError);
#[verifier::external_type_specification] #[verifier::external_body] pub struct ExFs(Fs);

//@@ CONST src/lib.rs | TARGET
//@@ CONST src/lib.rs | SOURCE

pub assume_specification<T, U, F: FnOnce(T) -> U>[Option::<T>::map_or](o: Option<T>, d: U, f: F) -> (r: U)
    requires o is Some ==> f.requires((o->Some_0,)),
    ensures o is None ==> r == d, o is Some ==> f.ensures((o->Some_0,), r);

// ---- paths (A-STD): pure functions -------------------------------------------------------------------------------------------------
pub uninterp spec fn joined<B, P>(base: B, p: P) -> PathBuf;
pub uninterp spec fn with_ext(p: PathBuf, ext: Seq<char>) -> PathBuf;
/// A-PATH-UTF8: the paths named in messages are valid UTF-8 (`to_str().unwrap()` in two error messages)
pub uninterp spec fn path_utf8(p: PathBuf) -> bool;
pub uninterp spec fn os_utf8(p: OsStr) -> bool;
// ---- the file system as read (A-FS): functions of the path within one call -----------------------------------------------------------
pub uninterp spec fn is_file_of(p: PathBuf) -> bool;
pub uninterp spec fn is_dir_of(p: PathBuf) -> bool;
pub uninterp spec fn exists_of(p: PathBuf) -> bool;
pub uninterp spec fn listing_of(p: PathBuf) -> Result<Vec<OsString>, String>;
pub uninterp spec fn read_of(p: PathBuf) -> Result<String, String>;
pub uninterp spec fn as_path_of(p: PathBuf) -> Path;
// ---- the file system as written: the attempts to write Python, in order -------------------------------------------------------------
pub uninterp spec fn writes(fs: Fs) -> Seq<(PathBuf, Seq<char>)>;
// ---- the pipeline (unit PIPE) --------------------------------------------------------------------------------------------------------
pub uninterp spec fn pipeline_of(texts: Seq<Seq<char>>, paths: Seq<Option<PathBuf>>, dir: PathBuf, annotate: bool) -> Result<Vec<String>, Vec<String>>;

impl Path {
    #[verifier::external_body] pub fn join<P>(&self, p: P) -> (r: PathBuf) ensures r == joined(*self, p) { unimplemented!() }
}
impl PathBuf {
    #[verifier::external_body] pub fn join<P>(&self, p: P) -> (r: PathBuf) ensures r == joined(*self, p) { unimplemented!() }
    #[verifier::external_body] pub fn is_file(&self) -> (r: bool) ensures r == is_file_of(*self) { unimplemented!() }
    #[verifier::external_body] pub fn is_dir(&self) -> (r: bool) ensures r == is_dir_of(*self) { unimplemented!() }
    #[verifier::external_body] pub fn exists(&self) -> (r: bool) ensures r == exists_of(*self) { unimplemented!() }
    #[verifier::external_body] pub fn as_path(&self) -> (r: &Path) ensures *r == as_path_of(*self) { unimplemented!() }
    #[verifier::external_body] pub fn as_os_str(&self) -> (r: &OsStr) ensures os_utf8(*r) == path_utf8(*self) { unimplemented!() }
    #[verifier::external_body] pub fn display(&self) -> PathDisplay { unimplemented!() }
    #[verifier::external_body] pub fn with_extension(&self, ext: &str) -> (r: PathBuf) ensures r == with_ext(*self, ext@) { unimplemented!() }
    #[verifier::external_body] pub fn clone(&self) -> (r: PathBuf) ensures r == *self { unimplemented!() }
}
impl OsStr {
    #[verifier::external_body] pub fn to_str(&self) -> (r: Option<&str>) ensures os_utf8(*self) ==> r is Some { unimplemented!() }
}
impl IoError {
    #[verifier::external_body] pub fn to_string(&self) -> String { unimplemented!() }
}
/// std::fs::create_dir: makes the output directory; writes no Python
#[verifier::external_body] pub fn create_dir(p: &PathBuf) -> Result<(), IoError> { unimplemented!() }
/// text dropped by the format! rewrite
#[verifier::external_body] pub fn verif_opaque_string() -> String { unimplemented!() }

/// A-FS: the listing is a function of the path (within one call)
#[verifier::external_body]
pub fn relative_files(in_path: &Path) -> (r: Result<Vec<OsString>, String>)
    ensures forall|p: PathBuf| as_path_of(p) == *in_path ==> r == #[trigger] listing_of(p),
        // (body pinned) a single file lists as exactly its own name
        forall|p: PathBuf| as_path_of(p) == *in_path && #[trigger] is_file_of(p) ==> (r matches Ok(v) && v@.len() == 1),
{ unimplemented!() }
/// A-FS: the content is a function of the path (within one call)
#[verifier::external_body]
pub fn read_source(source_path: &PathBuf) -> (r: Result<String, String>) ensures r == read_of(*source_path) { unimplemented!() }
/// `io::` paths of lib.rs resolve to the two stubs above
pub mod io { pub use super::relative_files; pub use super::read_source; }
/// REPLACED `io::write_source(source, &out_path)`: the attempt is recorded (whether or not it succeeds)
#[verifier::external_body]
pub fn verif_write_source(source: &String, out_path: &PathBuf, fs: &mut Fs) -> (r: Result<usize, String>)
    ensures writes(*final(fs)) == writes(*old(fs)).push((*out_path, source@)),
{ unimplemented!() }
/// REPLACED `mamba_to_python(..)` (unit PIPE): a function of the texts, the paths, the source directory and the flag; one output per
/// input (PIPE: all_translated); touches no file
#[verifier::external_body]
pub fn mamba_to_python(source: &[(String, Option<PathBuf>)], source_dir: &PathBuf, pipeline_args: &PipelineArguments) -> (r: Result<Vec<String>, Vec<String>>)
    ensures r == pipeline_of(texts_of(source@), paths_of(source@), *source_dir, pipeline_args.annotate),
        r matches Ok(py) ==> py@.len() == source@.len(),
{ unimplemented!() }

// ---- iterator chains (A-REWRITE) -------------------------------------------------------------------------------------------------------
/// `v.iter().map(f).collect()`
#[verifier::external_body]
pub fn verif_map_collect<T, U, F: Fn(&T) -> U>(v: &Vec<T>, f: F, Ghost(post): Ghost<spec_fn(T, U) -> bool>) -> (r: Vec<U>)
    requires forall|x: T| #[trigger] f.requires((&x,)),
        forall|x: T, out: U| #[trigger] f.ensures((&x,), out) ==> post(x, out),
    ensures r@.len() == v@.len(), forall|k: int| 0 <= k < v@.len() ==> post(v@[k], #[trigger] r@[k]),
{ unimplemented!() }
/// `a.iter().zip(b.iter()).map(f).collect()`
#[verifier::external_body]
pub fn verif_zip_map_collect<A, B, U, F: Fn(&A, &B) -> U>(a: &Vec<A>, b: &Vec<B>, f: F, Ghost(post): Ghost<spec_fn(A, B, U) -> bool>) -> (r: Vec<U>)
    requires forall|x: A, y: B| #[trigger] f.requires((&x, &y)),
        forall|x: A, y: B, out: U| #[trigger] f.ensures((&x, &y), out) ==> post(x, y, out),
    ensures r@.len() == (if a@.len() <= b@.len() { a@.len() } else { b@.len() }), forall|k: int| 0 <= k < r@.len() ==> post(a@[k], b@[k], #[trigger] r@[k]),
{ unimplemented!() }
/// `a.iter().zip(b)` collected: the pairs (&a[i], b[i]) up to the shorter length
#[verifier::external_body]
pub fn verif_zip_pairs<'a, A, B>(a: &'a Vec<A>, b: Vec<B>) -> (r: Vec<(&'a A, B)>)
    ensures r@.len() == (if a@.len() <= b@.len() { a@.len() } else { b@.len() }), forall|k: int| 0 <= k < r@.len() ==> *(#[trigger] r@[k]).0 == a@[k] && r@[k].1 == b@[k],
{ unimplemented!() }
/// `v.clone()` on Vec<PathBuf>
#[verifier::external_body]
pub fn verif_clone_paths(v: &Vec<PathBuf>) -> (r: Vec<PathBuf>) ensures r@ == v@ { unimplemented!() }

// ---- specification (C13) ----------------------------------------------------------------------------------------------------------
pub open spec fn texts_of(s: Seq<(String, Option<PathBuf>)>) -> Seq<Seq<char>> { Seq::new(s.len(), |i: int| s[i].0@) }
pub open spec fn paths_of(s: Seq<(String, Option<PathBuf>)>) -> Seq<Option<PathBuf>> { Seq::new(s.len(), |i: int| s[i].1) }
/// where the sources are: <dir>/<src>, by default <dir>/src
spec fn src_path_of(dir: Path, src: Option<&str>) -> PathBuf { match src { Some(p) => joined(dir, p), None => joined(dir, SOURCE) } }
/// where the output goes: <dir>/<target>, by default <dir>/target
spec fn out_dir_of(dir: Path, target: Option<&str>) -> PathBuf { match target { Some(t) => joined(dir, t), None => joined(dir, TARGET) } }
/// the file read for listed entry i: <src>/<entry> (the source itself if it is a single file)
pub open spec fn in_path(sp: PathBuf, rels: Seq<OsString>, i: int) -> PathBuf { if is_dir_of(sp) { joined(sp, &rels[i]) } else { sp } }
/// the file written for listed entry i: <out>/<entry> with extension py — the same relative path
pub open spec fn out_path(od: PathBuf, rels: Seq<OsString>, i: int) -> PathBuf { with_ext(joined(od, &rels[i]), "py"@) }
/// every listed file can be read
pub open spec fn readable(sp: PathBuf, rels: Seq<OsString>) -> bool {
    (is_dir_of(sp) || rels.len() == 1) && forall|i: int| 0 <= i < rels.len() ==> (#[trigger] read_of(in_path(sp, rels, i))) is Ok
}
/// what the pipeline is to be fed: text i is the content of the i-th listed file, path i is that file
pub open spec fn fed_texts(sp: PathBuf, rels: Seq<OsString>) -> Seq<Seq<char>> {
    Seq::new(rels.len(), |i: int| match read_of(in_path(sp, rels, i)) { Ok(s) => s@, Err(_) => Seq::empty() })
}
pub open spec fn fed_paths(sp: PathBuf, rels: Seq<OsString>) -> Seq<Option<PathBuf>> { Seq::new(rels.len(), |i: int| Some(in_path(sp, rels, i))) }
/// the verdict of the pipeline on the whole project (None: the project could not be listed or read)
spec fn verdict(dir: Path, src: Option<&str>, annotate: bool) -> Option<Result<Vec<String>, Vec<String>>> {
    let sp = src_path_of(dir, src);
    match listing_of(sp) {
        Ok(rels) => if readable(sp, rels@) { Some(pipeline_of(fed_texts(sp, rels@), fed_paths(sp, rels@), sp, annotate)) } else { None },
        Err(_) => None,
    }
}
/// the first n writes of a mirrored output tree: output i to <out>/<entry i>.py, in order
pub open spec fn mirrored(od: PathBuf, rels: Seq<OsString>, py: Seq<String>, n: int) -> Seq<(PathBuf, Seq<char>)> {
    Seq::new(n as nat, |i: int| (out_path(od, rels, i), py[i]@))
}

impl PipelineArguments {
//@@ FN src/lib.rs | impl From<&Arguments> for PipelineArguments | from | as=from_arguments | props=C11,C03
    ensures r.annotate == arguments.annotate,                                    //# the_annotate_flag_reaches_the_pipeline [C11]
//@@ END
}

#[verifier::loop_isolation(false)]
//@@ FN src/lib.rs | free | transpile_dir | props=C13,C11,C03
//@@ SIG fn transpile_dir(dir: &Path, src: Option<&str>, target: Option<&str>, arguments: &Arguments, fs: &mut Fs) -> (r: Result<PathBuf, Vec<String>>)
//@@ REPLACE deep
//@@< src.map_or(dir.join(SOURCE), |p| $$)
//@@> src.map_or(dir.join(SOURCE), |p: &str| -> (o: PathBuf) ensures o == joined(*dir, p), { $$1 })
//@@ REPLACE deep
//@@< create_dir(&out_dir).map_err(|e| $$)?
//@@> create_dir(&out_dir).map_err(|e: IoError| -> (v: Vec<String>) ensures true, { $$1 })?
//@@ REPLACE deep count=all
//@@< .map_err(|error| $$)?
//@@> .map_err(|error: String| -> (v: Vec<String>) ensures true, { $$1 })?
//@@ REPLACE deep
//@@< if src_path.is_dir() { relative_paths .iter() .map(|os_string| $$) .collect() }
//@@> if src_path.is_dir() { verif_map_collect(&relative_paths, |os_string: &OsString| -> (o: PathBuf) ensures /*# a_file_is_read_from_its_relative_path_under_the_source_directory [C13] #*/ o == joined(src_path, os_string), { $$1 }, Ghost(|e: OsString, o: PathBuf| o == joined(src_path, &e))) }
//@@ REPLACE deep
//@@< let out_absolute_paths: Vec<PathBuf> = relative_paths .iter() .map(|os_string| $$) .collect();
//@@> let out_absolute_paths: Vec<PathBuf> = verif_map_collect(&relative_paths, |os_string: &OsString| -> (o: PathBuf) ensures /*# a_file_is_written_to_the_same_relative_path_under_the_output_directory [C13] #*/ o == joined(out_dir, os_string), { $$1 }, Ghost(|e: OsString, o: PathBuf| o == joined(out_dir, &e)));
//@@ ITERNAME
//@@< for source_path in in_absolute_paths.clone()
//@@> for source_path in rit: verif_clone_paths(&in_absolute_paths)
//@@ HINT before
//@@< let mut sources = vec![];
//@@> let ghost sp = src_path; let ghost od = out_dir; let ghost rels = relative_paths@; let ghost ins = in_absolute_paths@; proof { assert(listing_of(sp) == Ok::<Vec<OsString>, String>(relative_paths)); assert forall|i: int| 0 <= i < rels.len() implies #[trigger] ins[i] == in_path(sp, rels, i) by { } }
//@@ LOOPINV
//@@< for source_path in in_absolute_paths.clone()
//@@> invariant rit.history@ + rit.iter.remaining() == ins, rit.history@.len() == rit.index@, rit.index@ <= ins.len(), sources@.len() == rit.index@, writes(*fs) == writes(*old(fs)), forall|k: int| 0 <= k < rit.index@ ==> read_of(#[trigger] ins[k]) == Ok::<String, String>(sources@[k]),
//@@ REPLACE
//@@< let source_pairs = sources.iter().zip(in_absolute_paths.iter());
//@@>
//@@ REPLACE deep
//@@< source_pairs .map(|(source, path)| $$) .collect()
//@@> verif_zip_map_collect(&sources, &in_absolute_paths, |verif_s: &String, verif_p: &PathBuf| -> (o: (String, Option<PathBuf>)) ensures /*# the_pipeline_is_fed_each_text_with_the_path_it_was_read_from [C13] #*/ o.0@ == verif_s@ && o.1 == Some(*verif_p), { let (source, path) = (verif_s, verif_p); $$1 }, Ghost(|s: String, p: PathBuf, o: (String, Option<PathBuf>)| o.0@ == s@ && o.1 == Some(p)))
//@@ REPLACE
//@@< PipelineArguments::from(arguments)
//@@> PipelineArguments::from_arguments(arguments)
//@@ HINT before
//@@< let mamba_source = $$;
//@@> proof { assert(sources@.len() == ins.len()); assert forall|i: int| 0 <= i < rels.len() implies (#[trigger] read_of(in_path(sp, rels, i))) is Ok by { assert(ins[i] == in_path(sp, rels, i)); } assert(readable(sp, rels)); assert(texts_of(source_option_pairs@) =~= fed_texts(sp, rels)); assert(paths_of(source_option_pairs@) =~= fed_paths(sp, rels)); }
//@@ HINT after
//@@< let mamba_source = $$;
//@@> let ghost py = mamba_source@;
//@@ CLAIM after
//@@< let mamba_source = $$;
//@@> assert(verdict(*dir, src, arguments.annotate) == Some(Ok::<Vec<String>, Vec<String>>(mamba_source)));  //# what_goes_on_to_be_written_is_the_output_of_the_pipeline_accepting_the_whole_project [C13]
//@@ ITERNAME
//@@< for (source, out_path) in mamba_source.iter().zip(out_absolute_paths)
//@@> for (source, out_path) in wit: verif_zip_pairs(&mamba_source, out_absolute_paths)
//@@ HINT before
//@@< for (source, out_path) in mamba_source.iter().zip(out_absolute_paths)
//@@> let ghost outs = out_absolute_paths@; let ghost w0 = writes(*fs);
//@@ LOOPINV
//@@< for (source, out_path) in mamba_source.iter().zip(out_absolute_paths)
//@@> invariant wit.history@.len() == wit.index@, wit.index@ <= rels.len(), wit.history@ + wit.iter.remaining() =~= Seq::new(rels.len(), |k: int| (&py[k], outs[k])), forall|k: int| 0 <= k < rels.len() ==> #[trigger] outs[k] == joined(od, &rels[k]), py.len() == rels.len(), w0 == writes(*old(fs)),
//@@ INVCLAIM
//@@< for (source, out_path) in mamba_source.iter().zip(out_absolute_paths)
//@@> writes(*fs) =~= w0 + mirrored(od, rels, py, wit.index@ as int), //# loop_output_i_is_written_to_the_mirrored_path_of_entry_i_in_order [C13]
//@@ REPLACE
//@@< io::write_source(source, &out_path)
//@@> verif_write_source(source, &out_path, fs)
    requires forall|p: PathBuf| #[trigger] path_utf8(p),                         //# paths_named_in_messages_are_utf8 [-]
    ensures
        writes(*final(fs)) != writes(*old(fs)) ==> (verdict(*dir, src, arguments.annotate) matches Some(v) && v is Ok),   //# python_is_written_only_if_every_file_was_accepted [C13]
        r is Ok ==> (verdict(*dir, src, arguments.annotate) matches Some(v) && v is Ok),   //# success_is_reported_only_if_every_file_was_accepted [C13]
        r matches Ok(d) ==> d == out_dir_of(*dir, target)
            && (verdict(*dir, src, arguments.annotate) matches Some(Ok(py)) && (listing_of(src_path_of(*dir, src)) matches Ok(rels)
                && writes(*final(fs)) =~= writes(*old(fs)) + mirrored(d, rels@, py@, rels@.len() as int))),   //# exactly_one_py_per_listed_file_at_the_same_relative_path_and_nothing_else [C13]
//@@ END

} // verus!

fn main() {}
