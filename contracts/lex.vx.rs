//@@ UNIT LEX
//@@ RLIMIT 40
// Unit LEX — src/parse/lex/state.rs (whole state machine) + Lex::new (token.rs).
// Function bodies are copied verbatim from /repo on every run.
#![allow(unused_imports, dead_code, unused_variables, non_snake_case, unused_mut)]
use vstd::prelude::*;
use std::cmp::{max, min, Ordering};
use std::iter::Peekable;
use std::str::Chars;

//@@ INCLUDE pos_types.inc.rs
//@@ TYPE src/parse/lex/token.rs | struct | Lex
//@@ TYPE src/parse/lex/token.rs | enum | Token
//@@ TYPE src/parse/lex/state.rs | struct | State | pubfields
//@@ TYPE src/parse/lex/pass/docstring.rs | struct | DocString | pubfields
//@@ TYPE src/parse/lex/result.rs | type | LexResult
pub struct LexErr { _x: u8 }

// ---- /repo functions with ASSUMED contracts in this unit (bodies pinned: contracts/assume_pins.json) ----------------------------
//@@ ASSUME src/parse/lex/tokenize.rs | free | as_op_or_id
//@@ ASSUME src/parse/lex/token.rs | impl fmt::Display for Token | fmt
verus! {

#[verifier::external_type_specification] pub struct ExPosition(Position);
#[verifier::external_type_specification] pub struct ExCaretPos(CaretPos);
#[verifier::external_type_specification] pub struct ExLex(Lex);
#[verifier::external_type_specification] pub struct ExToken(Token);
#[verifier::external_type_specification] pub struct ExState(State);
#[verifier::external_type_specification] pub struct ExDocString(DocString);
#[verifier::external_type_specification] #[verifier::external_body] pub struct ExLexErr(LexErr);
#[verifier::external_type_specification] #[verifier::external_body]
#[verifier::reject_recursive_types(I)]
pub struct ExPeekable<I: Iterator>(Peekable<I>);

// ---- trusted: derived impls are structural (A-DERIVE), std conversions (A-STD) --------------------
//@@ INCLUDE pos_body.inc.rs

pub assume_specification[<Token as Clone>::clone](t: &Token) -> (r: Token) ensures r == *t;
pub assume_specification[<Lex as Clone>::clone](t: &Lex) -> (r: Lex) ensures r == *t;
pub assume_specification[<Token as PartialEq>::eq](a: &Token, b: &Token) -> (r: bool) ensures r == (*a == *b);
// A-TOK (ASCII): byte length == number of characters == number of columns
pub assume_specification[String::len](s: &String) -> (r: usize) ensures r == s@.len(), r <= isize::MAX;
pub assume_specification[<i32 as From<bool>>::from](b: bool) -> (r: i32) ensures r == (if b { 1i32 } else { 0i32 });
pub assume_specification<T, U, F: FnOnce(T) -> U>[Option::<T>::map_or](o: Option<T>, d: U, f: F) -> (r: U)
    requires o is Some ==> f.requires((o->Some_0,)),
    ensures o is None ==> r == d, o is Some ==> f.ensures((o->Some_0,), r);

// ---- specification vocabulary (from C18 / C14) --------------------------------------------------------
/// number of line breaks in a piece of source text
pub open spec fn str_breaks(s: Seq<char>) -> nat
    decreases s.len()
{
    if s.len() == 0 { 0 } else { str_breaks(s.drop_last()) + (if s.last() == '\n' { 1nat } else { 0nat }) }
}

/// line breaks inside the source text of a token: only string-like tokens can contain any
pub open spec fn tok_breaks(t: Token) -> nat {
    match t {
        Token::Str(s, _) => str_breaks(s@),
        Token::DocStr(s) => str_breaks(s@),
        _ => 0,
    }
}

/// number of characters after the last line break of a text (the whole text if it has none)
pub open spec fn last_line_len(s: Seq<char>) -> nat
    decreases s.len()
{
    if s.len() == 0 { 0 } else if s.last() == '\n' { 0 } else { last_line_len(s.drop_last()) + 1 }
}

/// C18 "the canonical spelling of a token": number of source columns each token kind occupies.
/// Written from the language's token spellings (keywords, operators, literals as written).
pub open spec fn tok_width(t: Token) -> nat {
    match t {
        Token::From => 4, Token::Type => 4, Token::Class => 5, Token::Pure => 4, Token::IsA => 3,
        Token::As => 2, Token::Import => 6, Token::Forward => 7,
        Token::Point => 1, Token::Comma => 1, Token::DoublePoint => 1, Token::Vararg => 6, Token::BSlash => 1,
        Token::Id(s) => s@.len(),
        Token::Fin => 3, Token::Assign => 2, Token::AddAssign => 2, Token::SubAssign => 2, Token::MulAssign => 2,
        Token::DivAssign => 2, Token::PowAssign => 2, Token::BLShiftAssign => 3, Token::BRShiftAssign => 3, Token::Def => 3,
        Token::Real(s) => s@.len(), Token::Int(s) => s@.len(),
        Token::ENum(b, e) => b@.len() + 1 + e@.len(),
        Token::Str(s, _) => s@.len() + 2,
        Token::DocStr(s) => s@.len() + 6,
        Token::Range => 2, Token::RangeIncl => 3, Token::Slice => 2, Token::SliceIncl => 3,
        Token::Add => 1, Token::Sub => 1, Token::Mul => 1, Token::Div => 1, Token::FDiv => 2, Token::Pow => 1,
        Token::Mod => 3, Token::Sqrt => 4,
        Token::BAnd => 5, Token::BOr => 4, Token::BXOr => 5, Token::BOneCmpl => 5, Token::BLShift => 2, Token::BRShift => 2,
        Token::Ge => 1, Token::Geq => 2, Token::Le => 1, Token::Leq => 2,
        Token::Eq => 1, Token::Is => 2, Token::Neq => 2, Token::And => 3, Token::Or => 2, Token::Not => 3,
        Token::LRBrack => 1, Token::RRBrack => 1, Token::LSBrack => 1, Token::RSBrack => 1, Token::LCBrack => 1,
        Token::RCBrack => 1, Token::Ver => 1, Token::To => 2, Token::BTo => 2,
        Token::NL => 0, Token::Indent => 4, Token::Dedent => 0, Token::Underscore => 1,
        Token::Raise => 5, Token::When => 4,
        Token::While => 5, Token::For => 3, Token::In => 2, Token::If => 2, Token::Then => 4, Token::Match => 5,
        Token::Else => 4, Token::Do => 2, Token::Continue => 8, Token::Break => 5, Token::Ret => 6, Token::With => 4,
        Token::Question => 1, Token::Handle => 6, Token::Pass => 4,
        Token::Comment(s) => s@.len() + 1,
        Token::Eof => 0,
    }
}

/// columns the token occupies on its LAST line: its width if it has no line break, otherwise the
/// characters after the last break plus the closing delimiter (1 quote for a string, 3 for a doc-string)
pub open spec fn tok_last_line_width(t: Token) -> nat {
    if tok_breaks(t) == 0 { tok_width(t) } else {
        match t {
            Token::Str(s, _) => last_line_len(s@) + 1,
            Token::DocStr(s) => last_line_len(s@) + 3,
            _ => tok_width(t),
        }
    }
}

pub open spec fn last_small(v: Seq<Lex>) -> bool { v.len() > 0 ==> small(v.last().pos.end.pos) && small(v.last().pos.end.line) }
/// the last lexeme of a batch (the real token) ends at the caret
pub open spec fn last_at_caret(v: Seq<Lex>, s: State) -> bool { v.len() > 0 ==> v.last().pos.end == s.pos }
/// ... and starts where the caret was before its first character was read
pub open spec fn last_starts_at(v: Seq<Lex>, p: CaretPos) -> bool { v.len() > 0 ==> v.last().pos.start == p }
pub open spec fn is_synthetic(t: Token) -> bool {
    t == Token::NL || t == Token::Indent || t == Token::Dedent
}

/// C18: where the caret must be after consuming token `t` that starts at `p`: same line and
/// `width` columns further for a token without line breaks; otherwise `breaks` lines down, just
/// after the token's last-line text
pub open spec fn span_end(p: CaretPos, t: Token) -> (int, int) {
    if tok_breaks(t) == 0 { (p.line as int, p.pos + tok_width(t)) }
    else { (p.line + tok_breaks(t), tok_last_line_width(t) as int + 1) }
}

pub open spec fn count_tok(s: Seq<Lex>, t: Token) -> nat
    decreases s.len()
{
    if s.len() == 0 { 0 } else { count_tok(s.drop_last(), t) + (if s.last().token == t { 1nat } else { 0nat }) }
}

pub open spec fn all_nl(s: Seq<Lex>) -> bool { forall|i: int| 0 <= i < s.len() ==> s[i].token == Token::NL }


// ---- abstract view of the lexer state ---------------------------------------------------------------------
pub struct Abs {
    pub cur: int,     // indentation column of the last token-bearing line (1-based)
    pub li: int,      // indentation column counted so far on this line (1-based)
    pub ttl: bool,    // a token was already seen on this line
    pub line: int,
    pub col: int,
    pub nls: nat,     // buffered newline lexemes
}

pub open spec fn abs(s: State) -> Abs {
    Abs { cur: s.cur_indent as int, li: s.line_indent as int, ttl: s.token_this_line,
          line: s.pos.line as int, col: s.pos.pos as int, nls: s.newlines@.len() as nat }
}

/// representation invariant of the lexer state
pub open spec fn wf(s: State) -> bool {
    &&& s.pos.line >= 1 && s.pos.pos >= 1
    &&& s.cur_indent >= 1 && s.line_indent >= 1
    &&& small(s.pos.line) && small(s.pos.pos)
    &&& s.line_indent < 0x4000_0000
    &&& s.cur_indent < 0x4000_0000
    &&& (!s.token_this_line ==> s.line_indent as int == s.pos.pos as int)
    &&& all_nl(s.newlines@)
    &&& forall|i: int| 0 <= i < s.newlines@.len() ==> caret_le(#[trigger] s.newlines@[i].pos.start, s.pos)
}

// step functions of the abstract machine: what C18 / C14 say each event must do
pub open spec fn step_space(a: Abs) -> Abs {
    Abs { col: a.col + 1, li: if a.ttl { a.li } else { a.li + 1 }, ..a }
}
pub open spec fn step_nl(a: Abs) -> Abs {
    Abs { line: a.line + 1, col: 1, li: 1, ttl: false, nls: a.nls + 1, ..a }
}
/// a non-NL token containing b line breaks and occupying w columns on its last line
pub open spec fn step_tok(a: Abs, w: int, b: int) -> Abs {
    Abs { cur: a.li, ttl: true, line: a.line + b, col: if b == 0 { a.col + w } else { w + 1 }, nls: 0, ..a }
}
/// #Indent - #Dedent a token emits in state a (Rust `/` truncates toward zero)
pub open spec fn net_indent(a: Abs) -> int {
    if a.li >= a.cur { (a.li - a.cur) / 4 } else { -((a.cur - a.li) / 4) }
}

/// A-TOK: `Display for Token` prints the token's source spelling (format!/write! are outside both
/// verifiers).  Outline of `self.to_string()`; text unchanged.
#[verifier::external_body]
pub fn verif_outline_spelling(t: &Token) -> (r: String)
    ensures r@.len() == tok_width(*t), str_breaks(r@) == tok_breaks(*t),
            tok_breaks(*t) > 0 ==> last_line_len(r@) == tok_last_line_width(*t),
{ unimplemented!() /* outlined text: self.to_string() — Display for Token is not part of the extracted file */ }

/// A-STD outlines (text unchanged): str::rfind / str::matches(..).count() / String::len on ASCII text
#[verifier::external_body]
pub fn verif_outline_rfind_nl(text: &String) -> (r: Option<usize>)
    ensures (r is None) == (str_breaks(text@) == 0),
            r matches Some(i) ==> i < text@.len() && i + 1 + last_line_len(text@) == text@.len(),
{ text.rfind('\n') }
/// number of characters before the first line break (the whole text if it has none)
pub open spec fn first_line_len(s: Seq<char>) -> nat
    decreases s.len()
{
    if s.len() == 0 { 0 } else if s.first() == '\n' { 0 } else { first_line_len(s.drop_first()) + 1 }
}
#[verifier::external_body]
pub fn verif_outline_find_nl(text: &String) -> (r: Option<usize>)
    ensures (r is None) == (str_breaks(text@) == 0),
            r matches Some(i) ==> i < text@.len() && i == first_line_len(text@),
{ text.find('\n') }
#[verifier::external_body]
pub fn verif_outline_count_nl(text: &String) -> (r: usize)
    ensures r == str_breaks(text@),
{ text.matches('\n').count() }
#[verifier::external_body]
pub fn verif_outline_len(text: &String) -> (r: usize)
    ensures r == text@.len(),
{ text.len() }
/// `text.chars().count()`: the number of characters (exact: the view of a String is its sequence of characters)
#[verifier::external_body]
pub fn verif_outline_char_count(text: &String) -> (r: usize)
    ensures r == text@.len(),
{ text.chars().count() }
/// `text[idx + 1..].chars().count()` for the index `rfind('\n')` returned: the characters after the last line break
#[verifier::external_body]
pub fn verif_outline_chars_after_last_nl(text: &String, idx: usize) -> (r: usize)
    requires str_breaks(text@) > 0,
    ensures r == last_line_len(text@),
{ text[idx + 1..].chars().count() }

pub proof fn lemma_last_line_len_no_break(s: Seq<char>)
    requires str_breaks(s) == 0,
    ensures last_line_len(s) == s.len(),
    decreases s.len(),
{
    if s.len() > 0 { lemma_last_line_len_no_break(s.drop_last()); }
}

impl Token {
//@@ FN src/parse/lex/token.rs | impl Token | width
//@@ OUTLINE optional
//@@< self.to_string().len()
//@@> verif_outline_len(&verif_outline_spelling(self))
//@@ OUTLINE optional
//@@< self.to_string().chars().count()
//@@> verif_outline_char_count(&verif_outline_spelling(self))
    ensures r == tok_width(*self),                                               //# width_is_spelling_length [C18,C19]
//@@ END
//@@ FN src/parse/lex/token.rs | impl Token | extent
//@@ OUTLINE optional
//@@< self.to_string()
//@@> verif_outline_spelling(self)
//@@ OUTLINE optional
//@@< text.rfind('\n')
//@@> verif_outline_rfind_nl(&text)
//@@ OUTLINE optional
//@@< $text.find('\n')
//@@> verif_outline_find_nl(&$text)
//@@ OUTLINE optional
//@@< text.matches('\n').count()
//@@> verif_outline_count_nl(&text)
//@@ OUTLINE optional count=all
//@@< text.len()
//@@> verif_outline_len(&text)
//@@ OUTLINE optional
//@@< text[$ix + 1..].chars().count()
//@@> verif_outline_chars_after_last_nl(&text, $ix)
//@@ OUTLINE optional
//@@< text.chars().count()
//@@> verif_outline_char_count(&text)
//@@ HINT before optional
//@@< match text.rfind('\n')
//@@> proof { if str_breaks(text@) == 0 { lemma_last_line_len_no_break(text@); } }
    ensures
        r.0 == tok_breaks(*self),                                                //# extent_counts_line_breaks [C18,C19]
        r.1 == tok_last_line_width(*self),                                       //# extent_last_line_width [C18]
//@@ END
}

impl Lex {
//@@ FN src/parse/lex/token.rs | impl Lex | new
    requires
        start.line <= 0x4000_0000, start.pos <= 0x4000_0000, tok_breaks(token) < 0x4000_0000, tok_width(token) < 0x4000_0000,
        tok_last_line_width(token) < 0x4000_0000,                                //# sizes_below_2_30 [C03]
    ensures
        r.token == token,                                                        //# token_kept [C18]
        r.pos.start == start,                                                    //# span_starts_at_given_caret [C18]
        r.pos.end.line == span_end(start, token).0,                              //# end_line_counts_line_breaks [C18,C19]
        r.pos.end.pos == span_end(start, token).1,                               //# end_col_after_last_line_text [C18]
//@@ END
}

impl State {
//@@ FN src/parse/lex/state.rs | impl State | new
    ensures
        wf(r),
        abs(r) == (Abs { cur: 1, li: 1, ttl: false, line: 1, col: 1, nls: 0 }),   //# initial_state [C18,C14]
//@@ END

//@@ FN src/parse/lex/state.rs | impl State | flush_indents
    requires wf(*old(self)),
    ensures
        r@.len() == old(self).cur_indent / 4,                                    //# flush_emits_cur_div_4 [C18,C14]
        forall|i: int| 0 <= i < r@.len() ==> #[trigger] r@[i].token == Token::Dedent && r@[i].pos.start == old(self).pos && r@[i].pos.end == old(self).pos,  //# flush_only_dedents_at_caret [C18]
        final(self).cur_indent == 1,                                             //# flush_resets_indent [C18]
        final(self).pos == old(self).pos, final(self).newlines == old(self).newlines,
        final(self).line_indent == old(self).line_indent, final(self).token_this_line == old(self).token_this_line,  //# flush_frame [C18]
//@@ END

//@@ FN src/parse/lex/state.rs | impl State | token
//@@ CLOSURE
//@@< |$nl| vec![$nl]
//@@> |$nl: Lex| -> (v: Vec<Lex>) ensures v@ =~= seq![$nl] { vec![$nl] }
//@@ HINT after
//@@< let mut $res = self.newlines.pop().map_or(vec![], |$nl| vec![$nl]);
//@@> let ghost g0 = $res@; let ghost gnl = self.newlines@; let ghost mut ki: int = 0; let ghost mut kd: int = -1;
//@@ HINT before
//@@< $res.append(&mut vec![Lex::new(self.pos, Token::Indent); $ai]);
//@@> proof { ki = $ai as int; }
//@@ HINT before
//@@< $res.append(&mut vec![Lex::new(self.pos, Token::Dedent); $ad]);
//@@> proof { kd = $ad as int; }
//@@ HINT before
//@@< $res.append(&mut self.newlines);
//@@> let ghost g1 = $res@;
//@@ HINT before
//@@< $res }
//@@> proof { lemma_token_synthetic(*old(self), g0, gnl, g1, $res@, ki, kd); lemma_token_counts(*old(self), g0, gnl, g1, $res@, ki, kd); }
    requires
        wf(*old(self)),
        old(self).pos.line + tok_breaks(token) + 1 < 0x4000_0000,
        old(self).pos.pos + tok_width(token) + 4 < 0x4000_0000, tok_last_line_width(token) + 4 < 0x4000_0000,
        old(self).newlines@.len() < 0x4000_0000,                                 //# sizes_below_2_30 [C03]
    ensures
        wf(*final(self)),                                                        //# invariant_kept [C18,C14]
        token == Token::NL ==> r@.len() == 0 && abs(*final(self)) == step_nl(abs(*old(self)))
            && final(self).newlines@ == old(self).newlines@.push(Lex { pos: Position { start: old(self).pos, end: old(self).pos }, token: Token::NL }),   //# newline_is_buffered [C18,C14]
        token != Token::NL ==> abs(*final(self)) == step_tok(abs(*old(self)), tok_last_line_width(token) as int, tok_breaks(token) as int),   //# token_state_step [C18,C14]
        token != Token::NL ==> r@.len() >= 1 && r@.last().token == token && r@.last().pos.start == old(self).pos,   //# real_token_is_last_and_starts_at_caret [C18]
        token != Token::NL ==> final(self).pos == r@.last().pos.end,             //# caret_is_end_of_span [C18]
        token != Token::NL ==> final(self).pos.line == span_end(old(self).pos, token).0,   //# caret_line_counts_line_breaks [C18,C19]
        token != Token::NL ==> final(self).pos.pos == span_end(old(self).pos, token).1,   //# caret_col_after_last_line_text [C18]
        token != Token::NL ==> forall|i: int| 0 <= i < r@.len() - 1 ==> is_synthetic(#[trigger] r@[i].token)
            && caret_le(r@[i].pos.start, old(self).pos),                        //# only_synthetic_before_real_token [C18,C14]
        token != Token::NL ==> count_tok(r@.drop_last(), Token::Indent) as int - count_tok(r@.drop_last(), Token::Dedent) as int
            == net_indent(abs(*old(self))),                                     //# indent_dedent_count [C18,C14]
        token != Token::NL ==> count_tok(r@.drop_last(), Token::NL) == old(self).newlines@.len()
            + (if old(self).line_indent < old(self).cur_indent { 1nat } else { 0nat }),   //# newlines_preserved [C18,C14]
//@@ END

//@@ FN src/parse/lex/state.rs | impl State | newline
    requires wf(*old(self)), old(self).newlines@.len() < 0x4000_0000, old(self).pos.line < 0x3fff_ffff,
    ensures
        wf(*final(self)),                                                        //# invariant_kept [C18,C14]
        abs(*final(self)) == step_nl(abs(*old(self))),                           //# newline_state_step [C18,C14]
        final(self).newlines@ == old(self).newlines@.push(Lex { pos: Position { start: old(self).pos, end: old(self).pos }, token: Token::NL }),  //# newline_buffered_at_caret [C18]
//@@ END

//@@ FN src/parse/lex/state.rs | impl State | space
    requires wf(*old(self)), old(self).pos.pos < 0x3fff_ffff,
    ensures
        wf(*final(self)),                                                        //# invariant_kept [C18,C14]
        abs(*final(self)) == step_space(abs(*old(self))),                        //# space_state_step [C18,C14]
        final(self).newlines == old(self).newlines,                              //# space_frame [C18,C14]
//@@ END
}

// ---- helper lemmas used as hints inside `token` (scaffolding) ------------------------------------------------
pub proof fn lemma_count_concat(a: Seq<Lex>, b: Seq<Lex>, t: Token)
    ensures count_tok(a + b, t) == count_tok(a, t) + count_tok(b, t),
    decreases b.len(),
{
    if b.len() == 0 {
        assert(a + b =~= a);
    } else {
        assert((a + b).drop_last() =~= a + b.drop_last());
        lemma_count_concat(a, b.drop_last(), t);
    }
}

pub proof fn lemma_count_uniform(s: Seq<Lex>, x: Token, t: Token)
    requires forall|i: int| 0 <= i < s.len() ==> (#[trigger] s[i]).token == x,
    ensures count_tok(s, t) == (if t == x { s.len() } else { 0 }),
    decreases s.len(),
{
    if s.len() > 0 {
        lemma_count_uniform(s.drop_last(), x, t);
    }
}

pub open spec fn nl_at(p: CaretPos) -> Lex { Lex { pos: Position { start: p, end: p }, token: Token::NL } }

/// Counting facts about the vector `token` returns, in terms of ghost snapshots taken inside the body.
/// SCAFFOLDING RULE: this lemma states only structure (how many elements of which kind were appended); it
/// never mentions the (line_indent - cur_indent) / 4 formula — that is left to the contract clause, so a
/// change of the formula fails the clause and not a hint.
pub open spec fn token_shape(pre: State, g0: Seq<Lex>, gnl: Seq<Lex>, g1: Seq<Lex>, res: Seq<Lex>, ki: int, kd: int) -> bool {
    &&& wf(pre) && ki >= 0
    &&& (pre.newlines@.len() == 0 ==> g0.len() == 0 && gnl.len() == 0)
    &&& (pre.newlines@.len() > 0 ==> g0 =~= seq![pre.newlines@.last()] && gnl =~= pre.newlines@.drop_last())
    &&& g1.len() >= g0.len()
    &&& g1.subrange(0, g0.len() as int) =~= g0
    &&& (kd < 0 ==> g1.len() == g0.len() + ki
            && forall|i: int| g0.len() <= i < g1.len() ==> (#[trigger] g1[i]).token == Token::Indent && g1[i].pos.start == pre.pos)
    &&& (kd >= 0 ==> g1.len() == g0.len() + kd + 1
            && g1.last().token == Token::NL && g1.last().pos.start == pre.pos
            && forall|i: int| g0.len() <= i < g1.len() - 1 ==> (#[trigger] g1[i]).token == Token::Dedent && g1[i].pos.start == pre.pos)
    &&& res.len() == g1.len() + gnl.len() + 1
    &&& res.drop_last() =~= g1 + gnl
}

#[verifier::spinoff_prover]
pub proof fn lemma_token_synthetic(pre: State, g0: Seq<Lex>, gnl: Seq<Lex>, g1: Seq<Lex>, res: Seq<Lex>, ki: int, kd: int)
    requires token_shape(pre, g0, gnl, g1, res, ki, kd),
    ensures forall|i: int| 0 <= i < res.len() - 1 ==> is_synthetic(#[trigger] res[i].token) && caret_le(res[i].pos.start, pre.pos),
{
    let d = res.drop_last();
    assert forall|i: int| 0 <= i < res.len() - 1 implies is_synthetic(#[trigger] res[i].token) && caret_le(res[i].pos.start, pre.pos) by {
        assert(res[i] == d[i]);
        if i < g0.len() {
            assert(d[i] == g1[i]);
            assert(g1[i] == g1.subrange(0, g0.len() as int)[i]);
            assert(g0[i] == pre.newlines@.last());
        } else if i < g1.len() {
            assert(d[i] == g1[i]);
        } else {
            assert(d[i] == gnl[i - g1.len()]);
            assert(gnl[i - g1.len()] == pre.newlines@[i - g1.len()]);
        }
    }
}

#[verifier::spinoff_prover]
pub proof fn lemma_token_counts(pre: State, g0: Seq<Lex>, gnl: Seq<Lex>, g1: Seq<Lex>, res: Seq<Lex>, ki: int, kd: int)
    requires token_shape(pre, g0, gnl, g1, res, ki, kd),
    ensures
        kd < 0 ==> count_tok(res.drop_last(), Token::Indent) == ki && count_tok(res.drop_last(), Token::Dedent) == 0
            && count_tok(res.drop_last(), Token::NL) == pre.newlines@.len(),
        kd >= 0 ==> count_tok(res.drop_last(), Token::Indent) == 0 && count_tok(res.drop_last(), Token::Dedent) == kd
            && count_tok(res.drop_last(), Token::NL) == pre.newlines@.len() + 1,
{
    let mid = g1.subrange(g0.len() as int, g1.len() as int);
    assert(g1 =~= g0 + mid);
    lemma_count_uniform(g0, Token::NL, Token::Indent);
    lemma_count_uniform(g0, Token::NL, Token::Dedent);
    lemma_count_uniform(g0, Token::NL, Token::NL);
    lemma_count_uniform(gnl, Token::NL, Token::Indent);
    lemma_count_uniform(gnl, Token::NL, Token::Dedent);
    lemma_count_uniform(gnl, Token::NL, Token::NL);
    lemma_count_concat(g1, gnl, Token::Indent);
    lemma_count_concat(g1, gnl, Token::Dedent);
    lemma_count_concat(g1, gnl, Token::NL);
    lemma_count_concat(g0, mid, Token::Indent);
    lemma_count_concat(g0, mid, Token::Dedent);
    lemma_count_concat(g0, mid, Token::NL);
    if kd < 0 {
        lemma_count_uniform(mid, Token::Indent, Token::Indent);
        lemma_count_uniform(mid, Token::Indent, Token::Dedent);
        lemma_count_uniform(mid, Token::Indent, Token::NL);
    } else {
        let dd = mid.drop_last();
        assert(mid =~= dd + seq![mid.last()]);
        lemma_count_concat(dd, seq![mid.last()], Token::Indent);
        lemma_count_concat(dd, seq![mid.last()], Token::Dedent);
        lemma_count_concat(dd, seq![mid.last()], Token::NL);
        lemma_count_uniform(dd, Token::Dedent, Token::Indent);
        lemma_count_uniform(dd, Token::Dedent, Token::Dedent);
        lemma_count_uniform(dd, Token::Dedent, Token::NL);
        lemma_count_uniform(seq![mid.last()], Token::NL, Token::Indent);
        lemma_count_uniform(seq![mid.last()], Token::NL, Token::Dedent);
        lemma_count_uniform(seq![mid.last()], Token::NL, Token::NL);
    }
}

// ---- the character loop (C18 at character level): src/parse/lex/tokenize.rs::into_tokens ------------------------------
// Iterator model (A-STD): a Peekable<I> stands for the sequence `rest` of items not yet consumed; peek() looks at
// the first one, next() removes it.
pub uninterp spec fn rest<I: Iterator>(it: Peekable<I>) -> Seq<I::Item>;
pub assume_specification<I: Iterator>[Peekable::<I>::peek](it: &mut Peekable<I>) -> (r: Option<&I::Item>)
    ensures rest(*final(it)) == rest(*old(it)),
        rest(*old(it)).len() == 0 ==> r is None,
        rest(*old(it)).len() > 0 ==> r == Some(&rest(*old(it))[0]);
pub assume_specification<I: Iterator + Clone>[<Peekable<I> as Clone>::clone](it: &Peekable<I>) -> (r: Peekable<I>)
    where I::Item: Clone
    ensures rest(r) == rest(*it);
pub assume_specification<I: Iterator>[<Peekable<I> as Iterator>::next](it: &mut Peekable<I>) -> (r: Option<I::Item>)
    ensures
        rest(*old(it)).len() == 0 ==> r is None && rest(*final(it)) == rest(*old(it)),
        rest(*old(it)).len() > 0 ==> r == Some(rest(*old(it))[0]) && rest(*final(it)) == rest(*old(it)).drop_first();
/// outline of `c.to_string()` on a char
#[verifier::external_body]
pub fn verif_outline_char_to_string(c: char) -> (r: String) ensures r@ == seq![c] { unimplemented!() }

/// C18: where the caret must be after reading the characters `s` starting at (line, col): a line feed goes to
/// column 1 of the next line, every other character (also '\r') one column to the right
pub open spec fn advance(p: (int, int), s: Seq<char>) -> (int, int)
    decreases s.len()
{
    if s.len() == 0 { p } else {
        let q = advance(p, s.drop_last());
        if s.last() == '\n' { (q.0 + 1, 1int) } else { (q.0, q.1 + 1) }
    }
}
pub open spec fn caret_of(s: State) -> (int, int) { (s.pos.line as int, s.pos.pos as int) }
/// the characters consumed between two iterator states (final is a suffix of old)
pub open spec fn consumed(old_rest: Seq<char>, new_rest: Seq<char>) -> Seq<char> {
    old_rest.subrange(0, old_rest.len() - new_rest.len())
}
pub open spec fn is_suffix(new_rest: Seq<char>, old_rest: Seq<char>) -> bool {
    new_rest.len() <= old_rest.len() && new_rest =~= old_rest.subrange(old_rest.len() - new_rest.len(), old_rest.len() as int)
}
pub open spec fn no_nl(s: Seq<char>) -> bool { forall|i: int| 0 <= i < s.len() ==> s[i] != '\n' }

pub proof fn lemma_advance_no_nl(p: (int, int), s: Seq<char>)
    requires no_nl(s),
    ensures advance(p, s) == (p.0, p.1 + s.len()),
    decreases s.len(),
{
    if s.len() > 0 {
        assert(no_nl(s.drop_last())) by {
            assert forall|i: int| 0 <= i < s.drop_last().len() implies s.drop_last()[i] != '\n' by { assert(s.drop_last()[i] == s[i]); }
        }
        lemma_advance_no_nl(p, s.drop_last());
    }
}

#[verifier::external_body] pub fn verif_opaque_string() -> String { unimplemented!() }
/// where a lexical error points (LexErr::new stores the position it is given: body pinned)
pub uninterp spec fn err_pos(e: LexErr) -> CaretPos;
impl LexErr {
    #[verifier::external_body]
    pub fn new(pos: CaretPos, token: Option<Token>, msg: &str) -> (r: LexErr) ensures err_pos(r) == pos { unimplemented!() }
}
/// C19 "its position lies inside that file's text": p is where some character of the text sits, or the end of the text
pub open spec fn at_char_of(p: CaretPos, text: Seq<char>) -> bool {
    exists|k: int| 0 <= k <= text.len() && (p.line as int, p.pos as int) == #[trigger] advance((1int, 1int), text.subrange(0, k))
}

/// A-TOK: keyword / identifier recognition (`match` on string literals): the token is as wide as the text read
#[verifier::external_body]
pub fn as_op_or_id(string: String) -> (r: Token)
    ensures tok_width(r) == string@.len(), tok_breaks(r) == 0, r != Token::NL,
{ unimplemented!() }

/// room for every remaining character in the 2^30 coordinate budget
pub open spec fn room(s: State, n: nat) -> bool {
    s.pos.line + n + 16 < 0x4000_0000 && s.pos.pos + n + 16 < 0x4000_0000 && s.newlines@.len() + n + 16 < 0x4000_0000
}

/// what one call of into_tokens must establish: the caret has moved exactly over the characters read.
/// Stated by cases (solver friendly); lemma_char_step_is_advance shows every case is `advance` over the text read.
pub open spec fn char_step(s0: State, c: char, r0: Seq<char>, s1: State, r1: Seq<char>) -> bool {
    let k = r0.len() - r1.len();
    &&& is_suffix(r1, r0) && wf(s1) && s1.newlines@.len() <= s0.newlines@.len() + 1
    &&& ({
        ||| (c != '\n' && no_nl(consumed(r0, r1)) && caret_of(s1) == (s0.pos.line as int, s0.pos.pos + 1 + k))
        ||| (c == '\n' && k == 0 && caret_of(s1) == (s0.pos.line + 1, 1int))
        ||| (c == '\r' && k == 1 && r0[0] == '\n' && caret_of(s1) == (s0.pos.line + 1, 1int))
        ||| caret_of(s1) == advance(caret_of(s0), seq![c] + consumed(r0, r1))
    })
}

pub proof fn lemma_char_step_is_advance(s0: State, c: char, r0: Seq<char>, s1: State, r1: Seq<char>)
    requires char_step(s0, c, r0, s1, r1),
    ensures caret_of(s1) == advance(caret_of(s0), seq![c] + consumed(r0, r1)),
{
    let k = r0.len() - r1.len();
    let t = seq![c] + consumed(r0, r1);
    if c != '\n' && no_nl(consumed(r0, r1)) && caret_of(s1) == (s0.pos.line as int, s0.pos.pos + 1 + k) {
        assert(no_nl(t)) by {
            assert forall|i: int| 0 <= i < t.len() implies t[i] != '\n' by {
                if i > 0 { assert(t[i] == consumed(r0, r1)[i - 1]); }
            }
        }
        lemma_advance_no_nl(caret_of(s0), t);
    } else if c == '\n' && k == 0 {
        assert(t =~= seq!['\n']);
        assert(t.drop_last() =~= Seq::<char>::empty());
        assert(advance(caret_of(s0), Seq::<char>::empty()) == caret_of(s0));
    } else if c == '\r' && k == 1 && r0[0] == '\n' {
        assert(t =~= seq!['\r', '\n']);
        assert(t.drop_last() =~= seq!['\r']);
        assert(seq!['\r'].drop_last() =~= Seq::<char>::empty());
        assert(advance(caret_of(s0), Seq::<char>::empty()) == caret_of(s0));
        assert(advance(caret_of(s0), seq!['\r']) == (s0.pos.line as int, s0.pos.pos + 1));
    }
}

/// HAVOCKED in unit LEX, VERIFIED in unit LEXSTR (assume-guarantee split to keep each solver query small): the
/// string-scanning arm of into_tokens satisfies the same character-level contract
#[verifier::external_body]
pub fn verif_havoc_string_arm(c: char, it: &mut Peekable<Chars>, state: &mut State) -> (r: LexResult)
    requires wf(*old(state)), c == '"',
    ensures r is Ok ==> char_step(*old(state), c, rest(*old(it)), *final(state), rest(*final(it))), is_suffix(rest(*final(it)), rest(*old(it))),
        r matches Ok(v) ==> last_at_caret(v@, *final(state)) && last_starts_at(v@, old(state).pos),
        r matches Err(e) ==> err_pos(e) == old(state).pos || interp_err(e),
{ unimplemented!() }

/// outlines inside the string arm of into_tokens (A-STD / A-OUTLINE), text unchanged in /repo
#[verifier::external_body]
pub fn verif_outline_prefix(s: &String, n: usize) -> (r: String)
    requires n <= s@.len(),
    ensures r@ == s@.subrange(0, n as int),
{ unimplemented!() /* outlined text: s[0..n].to_owned() */ }
/// `s.starts_with("\"\"") && s.ends_with("\"\"")`: true only for a text that begins with a double quote
#[verifier::external_body]
pub fn verif_outline_doc_quotes(s: &String) -> (r: bool)
    ensures r ==> s@.len() >= 1 && s@[0] == '"',
{ unimplemented!() }
#[verifier::external_body]
pub fn verif_outline_trim_quotes<'a>(s: &'a String) -> (r: &'a str) { unimplemented!() }
/// HAVOCKED: re-lexing of the interpolated expressions of a string (closure chain over tokenize_direct); the
/// nested token lists do not influence the span or the caret (Str's width and line breaks come from its text)
#[verifier::external_body]
pub fn verif_havoc_interpolated(exprs: &Vec<(CaretPos, String)>) -> (r: LexResult<Vec<Vec<Lex>>>) ensures r matches Err(e) ==> interp_err(e) { unimplemented!() }
/// the error comes from re-lexing an interpolated expression `{..}` of a string: its position is the inner position moved to where
/// the expression starts (havocked chain; fixed defect 14 is guarded by its replayed witness, not by a clause)
pub uninterp spec fn interp_err(e: LexErr) -> bool;

/// C18: reading `"` + text + `"` moves the caret exactly as the span of the string token says
pub proof fn lemma_advance_text(p: (int, int), s: Seq<char>)
    ensures advance(p, s) == (if str_breaks(s) == 0 { (p.0, p.1 + s.len()) } else { (p.0 + str_breaks(s), last_line_len(s) as int + 1) }),
    decreases s.len(),
{
    if s.len() > 0 {
        lemma_advance_text(p, s.drop_last());
        if str_breaks(s.drop_last()) == 0 { lemma_last_line_len_no_break(s.drop_last()); }
    }
}
pub proof fn lemma_breaks_push(s: Seq<char>, c: char)
    ensures str_breaks(s.push(c)) == str_breaks(s) + (if c == '\n' { 1nat } else { 0nat }),
            last_line_len(s.push(c)) == (if c == '\n' { 0nat } else { last_line_len(s) + 1 }),
{
    assert(s.push(c).drop_last() =~= s);
}
pub proof fn lemma_breaks_prepend(c: char, s: Seq<char>)
    requires c != '\n',
    ensures str_breaks(seq![c] + s) == str_breaks(s),
            last_line_len(seq![c] + s) == (if str_breaks(s) == 0 { last_line_len(s) + 1 } else { last_line_len(s) }),
    decreases s.len(),
{
    if s.len() == 0 {
        assert(seq![c] + s =~= seq![c]);
        assert(seq![c].drop_last() =~= Seq::<char>::empty());
        assert(seq![c].last() == c);
        assert(str_breaks(Seq::<char>::empty()) == 0);
        assert(last_line_len(Seq::<char>::empty()) == 0);
    } else {
        assert((seq![c] + s).drop_last() =~= seq![c] + s.drop_last());
        assert((seq![c] + s).last() == s.last());
        lemma_breaks_prepend(c, s.drop_last());
    }
}
pub proof fn lemma_breaks_bound(s: Seq<char>)
    ensures str_breaks(s) <= s.len(), last_line_len(s) <= s.len(),
    decreases s.len(),
{
    if s.len() > 0 { lemma_breaks_bound(s.drop_last()); }
}
pub proof fn lemma_string_token_advance(p: (int, int), s: Seq<char>)
    ensures ({
        let t = seq!['"'] + s.push('"');
        advance(p, t) == (if str_breaks(s) == 0 { (p.0, p.1 + s.len() + 2) } else { (p.0 + str_breaks(s), last_line_len(s) as int + 2) })
    }),
{
    let t = seq!['"'] + s.push('"');
    lemma_advance_text(p, t);
    lemma_breaks_push(s, '"');
    lemma_breaks_prepend('"', s.push('"'));
}

//@@ FN src/parse/lex/tokenize.rs | free | create
    requires
        wf(*old(state)),
        old(state).pos.line + tok_breaks(token) + 2 < 0x4000_0000, old(state).pos.pos + tok_width(token) + 4 < 0x4000_0000,
        tok_last_line_width(token) + 4 < 0x4000_0000, old(state).newlines@.len() < 0x4000_0000,
    ensures
        r is Ok, wf(*final(state)), last_at_caret(r->Ok_0@, *final(state)), last_starts_at(r->Ok_0@, old(state).pos),
        token != Token::NL ==> caret_of(*final(state)) == span_end(old(state).pos, token),   //# caret_moves_over_the_token [C18]
        token == Token::NL ==> caret_of(*final(state)) == (old(state).pos.line + 1, 1int),   //# newline_token_moves_to_next_line [C18,C14]
        final(state).newlines@.len() <= old(state).newlines@.len() + 1,
//@@ END

//@@ FN src/parse/lex/tokenize.rs | free | next_and_create
    requires
        wf(*old(state)), tok_breaks(token) == 0, token != Token::NL,
        old(state).pos.line + 2 < 0x4000_0000, old(state).pos.pos + tok_width(token) + 4 < 0x4000_0000,
        old(state).newlines@.len() < 0x4000_0000,
    ensures
        r is Ok, wf(*final(state)), last_at_caret(r->Ok_0@, *final(state)), last_starts_at(r->Ok_0@, old(state).pos),
        caret_of(*final(state)) == (old(state).pos.line as int, old(state).pos.pos + tok_width(token)),   //# caret_moves_by_token_width [C18]
        rest(*old(it)).len() > 0 ==> rest(*final(it)) == rest(*old(it)).drop_first(),
        rest(*old(it)).len() == 0 ==> rest(*final(it)) == rest(*old(it)),         //# exactly_one_more_character_is_read [C18]
        final(state).newlines@.len() <= old(state).newlines@.len() + 1,
//@@ END

//@@ IFNDEF STRARM
#[verifier::loop_isolation(false)]
//@@ FN src/parse/lex/tokenize.rs | free | into_tokens | props=C18,C19,C03
//@@ HINT after
//@@< let mut $comment = String::new(); while it.peek().is_some()
//@@> /* binds $comment */
//@@ HINT after
//@@< let mut $id = c.to_string(); while let
//@@> /* binds $id */
//@@ LOOPINV
//@@< while it.peek().is_some() && *it.peek().unwrap() != '\n' && *it.peek().unwrap() != '\r'
//@@> invariant is_suffix(rest(*it), rest(*old(it))), $comment@ =~= consumed(rest(*old(it)), rest(*it)), no_nl(consumed(rest(*old(it)), rest(*it))), decreases rest(*it).len(),
//@@ HINT before
//@@< while let Some($lc) = it.peek()
//@@> let ghost c0 = c;
//@@ LOOPINV
//@@< while let Some($lc) = it.peek()
//@@> invariant is_suffix(rest(*it), rest(*old(it))), $id@ =~= seq![c0] + consumed(rest(*old(it)), rest(*it)), no_nl(consumed(rest(*old(it)), rest(*it))), decreases rest(*it).len(),
//@@ HINT after
//@@< let mut $number = c.to_string(); let mut $exp = String::new(); let mut $float = false; let mut $enum = false;
//@@> let ghost cn = c;
//@@ REPLACE
//@@< while let Some(&$nc) = it.peek() { match $nc {
//@@> while let Some(verif_ref) = it.peek() invariant is_suffix(rest(*it), rest(*old(it))), no_nl(consumed(rest(*old(it)), rest(*it))), $number@.len() >= 1, (rest(*old(it)).len() - rest(*it).len()) == $number@.len() - 1 + $exp@.len() + (if $enum { 1int } else { 0int }), !$enum ==> $exp@.len() == 0, decreases rest(*it).len(), { let $nc = *verif_ref; /* ref pattern `Some(&c)` spelled as a deref: Verus does not take ref patterns */ match $nc {
//@@ HAVOC nopin
//@@< '"' => { let mut string $$ } ' ' =>
//@@> '"' => { verif_havoc_string_arm(c, it, state) } ' ' =>
//@@ OUTLINE count=all
//@@< c.to_string()
//@@> verif_outline_char_to_string(c)
    requires wf(*old(state)), room(*old(state), rest(*old(it)).len()),            //# sizes_below_2_30 [C03]
    ensures
        is_suffix(rest(*final(it)), rest(*old(it))),                             //# only_reads_forward [C18]
        // C18 at character level: after each call the caret is exactly where reading the consumed characters puts it
        r is Ok ==> char_step(*old(state), c, rest(*old(it)), *final(state), rest(*final(it))),   //# caret_tracks_characters_read [C18,C14]
        r matches Ok(v) ==> last_at_caret(v@, *final(state)),                    //# last_span_ends_at_caret [C18]
        r matches Ok(v) ==> last_starts_at(v@, old(state).pos),                  //# token_starts_at_the_position_of_its_first_character [C18]
        r matches Err(e) ==> err_pos(e) == old(state).pos || interp_err(e),      //# a_lexical_error_is_reported_at_the_first_character_of_the_offending_token [C19]
//@@ END
//@@ ELSE
#[verifier::loop_isolation(false)]
//@@ FN src/parse/lex/tokenize.rs | free | into_tokens | props=C18,C19,C03
//@@ HAVOC nopin
//@@< match c { ',' => $$ '"' => { let mut
//@@> match c { /* every arm before the string arm is dropped in this unit (verified in unit LEX) */ '"' => { let mut
//@@ HINT after
//@@< let mut $string = String::new(); let mut $bs = false; let mut exprs
//@@> /* binds $string $bs */
//@@ HINT after
//@@< let mut $depth = 0; let mut $coff = CaretPos::start(); let mut $cexpr = String::new(); let mut $term = false;
//@@> /* binds $depth $cexpr $term */
//@@ REPLACE
//@@< for $sc in it {
//@@> while let Some($sc) = it.next() invariant !$term, $string@ =~= consumed(rest(*old(it)), rest(*it)), is_suffix(rest(*it), rest(*old(it))), -($string@.len() as int) <= $depth as int <= $string@.len(), $string@.len() <= rest(*old(it)).len(), ($string@.len() > 0 ==> $string@[0] != '"'), ($string@.len() == 0 ==> !$bs && $depth == 0), decreases rest(*it).len(), { /* `for c in it` over `&mut Peekable` spelled as the `while let Some(c) = it.next()` it desugars to */
//@@ HINT before
//@@< $coff = match $string.rfind('\n')
//@@> proof { lemma_breaks_bound($string@); }
//@@ OUTLINE optional
//@@< $string.rfind('\n')
//@@> verif_outline_rfind_nl(&$string)
//@@ OUTLINE optional
//@@< $string.matches('\n').count()
//@@> verif_outline_count_nl(&$string)
//@@ OUTLINE optional
//@@< $string[$ix2 + 1..].chars().count()
//@@> verif_outline_chars_after_last_nl(&$string, $ix2)
//@@ OUTLINE optional
//@@< $string.chars().count()
//@@> verif_outline_char_count(&$string)
//@@ OUTLINE
//@@< $cexpr[0..$$].to_owned()
//@@> verif_outline_prefix(&$cexpr, $$1)
//@@ OUTLINE
//@@< $string.starts_with("\"\"") && $string.ends_with("\"\"")
//@@> verif_outline_doc_quotes(&$string)
//@@ OUTLINE
//@@< $string.trim_start_matches("\"\"").trim_end_matches("\"\"")
//@@> verif_outline_trim_quotes(&$string)
//@@ HAVOC pin=30564c9ab881
//@@< exprs .iter() .map($$) .collect::<Result<_, _>>()?
//@@> verif_havoc_interpolated(&exprs)?
//@@ HINT before
//@@< create(state, Token::Str($string, $itoks))
//@@> proof { lemma_string_token_advance(caret_of(*old(state)), $string@); lemma_breaks_bound($string@); assert(consumed(rest(*old(it)), rest(*it)) =~= $string@.push('"')); assert(seq![c] + consumed(rest(*old(it)), rest(*it)) =~= seq!['"'] + $string@.push('"')); }
    requires wf(*old(state)), room(*old(state), rest(*old(it)).len()),            //# sizes_below_2_30 [C03]
    ensures
        is_suffix(rest(*final(it)), rest(*old(it))),                             //# only_reads_forward [C18]
        // C18 at character level: after each call the caret is exactly where reading the consumed characters puts it
        (c == '"' && r is Ok) ==> char_step(*old(state), c, rest(*old(it)), *final(state), rest(*final(it))),   //# caret_tracks_characters_read [C18,C14]
        c == '"' ==> (r matches Ok(v) ==> last_at_caret(v@, *final(state)) && last_starts_at(v@, old(state).pos)),                    //# last_span_ends_at_caret [C18]
        c == '"' ==> (r matches Err(e) ==> err_pos(e) == old(state).pos || interp_err(e)),   //# an_unterminated_string_is_reported_at_its_opening_quote [C19]
//@@ END
//@@ ENDIF

// ---- tokenize(): the whole-input theorem (C18 "line numbers never drift", "the stream ends with a single end-of-file token")
/// outline of `input.chars().peekable()` (Iterator::peekable is a provided trait method): the iterator stands
/// for all characters of the input
#[verifier::external_body]
pub fn verif_outline_chars_peekable<'a>(input: &'a str) -> (r: Peekable<Chars<'a>>) ensures rest(r) == input@ { unimplemented!() }
/// the doc-string pass over the finished stream (DocString::modify is verified above; the dyn Pass dispatch is not)
#[verifier::external_body]
pub fn pass(input: &[Lex]) -> (r: Vec<Lex>) { unimplemented!() }

pub proof fn lemma_advance_concat(p: (int, int), a: Seq<char>, b: Seq<char>)
    ensures advance(advance(p, a), b) == advance(p, a + b),
    decreases b.len(),
{
    if b.len() == 0 {
        assert(a + b =~= a);
    } else {
        assert((a + b).drop_last() =~= a + b.drop_last());
        lemma_advance_concat(p, a, b.drop_last());
    }
}

pub proof fn lemma_advance_bound(p: (int, int), s: Seq<char>)
    requires p.1 >= 1,
    ensures advance(p, s).0 <= p.0 + s.len(), advance(p, s).1 <= p.1 + s.len(), advance(p, s).1 >= 1, advance(p, s).0 >= p.0,
    decreases s.len(),
{
    if s.len() > 0 { lemma_advance_bound(p, s.drop_last()); }
}

/// one iteration of the tokenize loop in terms of the text read so far
pub proof fn lemma_tokenize_step(input: Seq<char>, r_before: Seq<char>, c: char, r_mid: Seq<char>, r_after: Seq<char>, s0: State, s1: State)
    requires
        is_suffix(r_before, input), r_before =~= seq![c] + r_mid,
        char_step(s0, c, r_mid, s1, r_after),
        caret_of(s0) == advance((1int, 1int), consumed(input, r_before)),
    ensures
        is_suffix(r_after, input),
        caret_of(s1) == advance((1int, 1int), consumed(input, r_after)),
        caret_of(s1).0 <= 1 + consumed(input, r_after).len(), caret_of(s1).1 <= 1 + consumed(input, r_after).len(),
{
    lemma_char_step_is_advance(s0, c, r_mid, s1, r_after);
    let n = input.len() as int;
    let lb = r_before.len() as int;
    let lm = r_mid.len() as int;
    let la = r_after.len() as int;
    assert(lb == lm + 1);
    // r_mid is the suffix of input of length lm
    assert forall|i: int| 0 <= i < lm implies r_mid[i] == input[n - lm + i] by {
        assert(r_before[i + 1] == r_mid[i]);
        assert(r_before[i + 1] == input.subrange(n - lb, n)[i + 1]);
    }
    // r_after is the suffix of input of length la
    assert forall|i: int| 0 <= i < la implies r_after[i] == input[n - la + i] by {
        assert(r_after[i] == r_mid.subrange(lm - la, lm)[i]);
    }
    assert(r_after =~= input.subrange(n - la, n));
    let a = consumed(input, r_before);
    let b = seq![c] + consumed(r_mid, r_after);
    assert(c == r_before[0]);
    assert(r_before[0] == input.subrange(n - lb, n)[0]);
    assert forall|i: int| 0 <= i < (a + b).len() implies (a + b)[i] == consumed(input, r_after)[i] by {
        if i < a.len() {
        } else if i == a.len() {
            assert((a + b)[i] == c);
        } else {
            let j = i - a.len() - 1;
            assert((a + b)[i] == consumed(r_mid, r_after)[j]);
            assert(consumed(r_mid, r_after)[j] == r_mid[j]);
        }
    }
    assert(a + b =~= consumed(input, r_after));
    lemma_advance_concat((1int, 1int), a, b);
    lemma_advance_bound((1int, 1int), consumed(input, r_after));
}

//@@ IFNDEF STRARM
#[verifier::loop_isolation(false)]
//@@ FN src/parse/lex/mod.rs | free | tokenize | props=C18,C19,C03
//@@ OUTLINE
//@@< input.chars().peekable()
//@@> verif_outline_chars_peekable(input)
//@@ HINT after
//@@< let mut $it = input.chars().peekable();
//@@> /* binds $it */
//@@ HINT after
//@@< let mut $state = State::new();
//@@> /* binds $state */
//@@ LOOPINV
//@@< while let Some($c) = $it.next()
//@@> invariant wf($state), is_suffix(rest($it), input@), caret_of($state) == advance((1int, 1int), consumed(input@, rest($it))), $state.newlines@.len() <= input@.len() - rest($it).len(), $state.pos.line <= 1 + input@.len() - rest($it).len(), $state.pos.pos <= 1 + input@.len() - rest($it).len(), last_small($tokens@), decreases rest($it).len(),
//@@ HINT after
//@@< let mut $tokens = Vec::new();
//@@> /* binds $tokens */
//@@ HINT before
//@@< $tokens.append(&mut into_tokens($c, &mut $it, &mut $state)?);
//@@> let ghost rb = seq![$c] + rest($it); let ghost s0 = $state; let ghost rm = rest($it); proof { assert(input@.subrange(0, input@.len() - rb.len()) =~= consumed(input@, rb)); assert(at_char_of($state.pos, input@)); }
//@@ HINT after
//@@< $tokens.append(&mut into_tokens($c, &mut $it, &mut $state)?);
//@@> proof { lemma_tokenize_step(input@, rb, $c, rm, rest($it), s0, $state); }
//@@ CLAIM before
//@@< $tokens.append(&mut $state.flush_indents());
//@@> assert(caret_of($state) == advance((1int, 1int), input@));  //# caret_after_whole_input_is_advance_of_the_text [C18]
//@@ HINT before
//@@< $tokens.append(&mut $state.flush_indents());
//@@> let ghost t0 = $tokens@; let ghost p0 = $state.pos;
//@@ HINT after
//@@< $tokens.append(&mut $state.flush_indents());
//@@> proof { if $tokens@.len() > t0.len() { assert($tokens@.last() == $tokens@[$tokens@.len() - 1]); assert($tokens@[$tokens@.len() - 1].token == Token::Dedent); assert($tokens@.last().pos.end == p0); } else { assert($tokens@ =~= t0); } assert(last_small($tokens@)); }
//@@ CLAIM before
//@@< let $out = pass(&$tokens);
//@@> assert($tokens@.len() >= 1 && $tokens@.last().token == Token::Eof);  //# stream_ends_with_eof [C18]
    requires input@.len() + 64 < 0x4000_0000,                                    //# sizes_below_2_30 [C03]
    ensures r matches Err(e) ==> at_char_of(err_pos(e), input@) || interp_err(e),   //# a_lexical_error_points_at_a_character_of_the_text [C19]
//@@ END
//@@ ENDIF

// ---- doc-string pass (C18 "... and doc-strings"): `""` `"doc"` `""` become one DocStr token ----------------------------
/// the three quotes of a doc-string as the lexer emits them: consecutive spans, each ending where span_end says
pub open spec fn triple_ok(f: Lex, m: Lex, b: Lex) -> bool {
    &&& f.token matches Token::Str(fs, _) && fs@.len() == 0
    &&& b.token matches Token::Str(bs, _) && bs@.len() == 0
    &&& m.token is Str
    &&& f.pos.end.line == span_end(f.pos.start, f.token).0 && f.pos.end.pos == span_end(f.pos.start, f.token).1
    &&& m.pos.start == f.pos.end
    &&& m.pos.end.line == span_end(m.pos.start, m.token).0 && m.pos.end.pos == span_end(m.pos.start, m.token).1
    &&& b.pos.start == m.pos.end
    &&& b.pos.end.line == span_end(b.pos.start, b.token).0 && b.pos.end.pos == span_end(b.pos.start, b.token).1
}
pub open spec fn str_of(t: Token) -> String { match t { Token::Str(s, _) => s, _ => arbitrary() } }
pub open spec fn str_payload(t: Token) -> Seq<char> { match t { Token::Str(s, _) => s@, _ => Seq::empty() } }

pub open spec fn wcount(d: DocString) -> int {
    (if d.front is Some { 1int } else { 0int }) + (if d.middle is Some { 1int } else { 0int }) + (if d.back is Some { 1int } else { 0int })
}
pub open spec fn lex_small(x: Lex) -> bool {
    small(x.pos.start.line) && small(x.pos.start.pos)
    && tok_breaks(x.token) + 8 < 0x4000_0000 && tok_width(x.token) + 8 < 0x4000_0000 && tok_last_line_width(x.token) + 8 < 0x4000_0000
}
pub proof fn lemma_empty_no_breaks(s: Seq<char>)
    requires s.len() == 0,
    ensures str_breaks(s) == 0,
{}

impl DocString {
//@@ FN src/parse/lex/pass/docstring.rs | impl DocString | new
    ensures r.front is None, r.middle is None, r.back is None,                   //# window_starts_empty [C18]
//@@ END
//@@ FN src/parse/lex/pass/docstring.rs | impl DocString | add
    ensures
        final(self).front == old(self).middle, final(self).middle == old(self).back, final(self).back == Some(*lex),   //# window_slides_by_one [C18]
        old(self).front is None ==> wcount(*final(self)) <= wcount(*old(self)) + 1,
//@@ END
//@@ FN src/parse/lex/pass/docstring.rs | impl DocString | get
//@@ HINT before
//@@< return vec![Lex::new($front.pos.start, Token::DocStr($doc))];
//@@> proof { lemma_empty_no_breaks(str_payload(old(self).front->Some_0.token)); lemma_empty_no_breaks(str_payload(old(self).back->Some_0.token)); }
    requires
        old(self).front matches Some(f) ==> lex_small(f),
        old(self).middle matches Some(m) ==> lex_small(m),                       //# sizes_below_2_30 [C03]
    ensures
        r@.len() <= 1,                                                           //# at_most_one_token_leaves_the_window [C18]
        // a merged doc-string token starts at the first quote and ends at the last one: its span is exactly the
        // union of the three quote tokens' spans
        (old(self).front matches Some(f) && old(self).middle matches Some(m) && old(self).back matches Some(b)
            && triple_ok(f, m, b) && r@.len() == 1 && r@[0].token is DocStr)
            ==> (r@[0].pos.start == old(self).front->Some_0.pos.start && r@[0].pos.end == old(self).back->Some_0.pos.end
                 && r@[0].token == Token::DocStr(str_of(old(self).middle->Some_0.token))),   //# doc_string_span_covers_all_three_quotes [C18]
        // otherwise the oldest token leaves the window unchanged (or nothing does)
        (r@.len() == 1 && !(r@[0].token is DocStr)) ==> old(self).front == Some(r@[0]),   //# other_tokens_pass_unchanged [C18]
        // frame for the window (needed by the pass loop): what stays in the window was in it before
        (final(self).front matches Some(x) ==> old(self).front == Some(x)),
        (final(self).middle matches Some(x) ==> old(self).middle == Some(x)),
        (final(self).back matches Some(x) ==> old(self).back == Some(x)),         //# window_only_shrinks [C18]
        r@.len() + wcount(*final(self)) <= wcount(*old(self)),                   //# no_token_is_duplicated [C18]
        final(self).front is None,                                               //# oldest_token_always_leaves [C18]
//@@ END
#[verifier::loop_isolation(false)]
//@@ FN src/parse/lex/pass/docstring.rs | impl Pass for DocString | modify
//@@ ITERNAME
//@@< for $lex in input
//@@> for $lex in it: input
//@@ LOOPINV
//@@< for $lex in input
//@@> invariant (self.front matches Some(x) ==> lex_small(x)), (self.middle matches Some(x) ==> lex_small(x)), (self.back matches Some(x) ==> lex_small(x)), out@.len() + wcount(*self) <= it.index@, self.front is None,
    requires forall|i: int| 0 <= i < input@.len() ==> lex_small(#[trigger] input@[i]),
        old(self).front is None, old(self).middle is None, old(self).back is None,   //# sizes_below_2_30 [C03]
    ensures r@.len() <= input@.len(),                                            //# pass_never_adds_tokens [C18]
//@@ END
//@@ FN src/parse/lex/pass/docstring.rs | impl DocString | flush
    ensures
        r@.len() == (if old(self).front is Some { 1int } else { 0int }) + (if old(self).middle is Some { 1int } else { 0int }) + (if old(self).back is Some { 1int } else { 0int }),   //# flush_emits_what_is_left [C18]
//@@ END
}

//@@ INCLUDE lex_lemmas.inc.rs
} // verus!

fn main() {}
