//@@ UNIT NAMESUP
// Unit NAMESUP — src/check/name/mod.rs::<Name as IsSuperSet<Name>>::is_superset_of: the assignability test at the level of
// (union) Names — the function unify_type actually calls (unit UNIFY treats it as the uninterpreted `name_sup`; unit NULL
// proves the member-level test TrueName::is_superset_of against the nullable rule).  Here: a union S accepts a union O iff
// EVERY member of O is accepted by SOME member of S (for an interchangeable O: iff some member of O is accepted by some
// member of S).  The loop over the HashSet iterates a stand-in Vec of its members (A-STD-COLL); the mapped closure is
// spliced (its body is verified against the member-level result); `|=` on bool is spelled `= .. ||`.
#![allow(unused_imports, dead_code, unused_variables, non_snake_case, unused_mut)]
use vstd::prelude::*;
use std::marker::PhantomData;
use vstd::std_specs::iter::IteratorSpec;

//@@ INCLUDE pos_types.inc.rs
/// stand-in for std::collections::HashSet (same name: the copied struct is verbatim)
#[derive(Clone, Debug, PartialEq, Eq, Hash)] pub struct HashSet<T> { _t: PhantomData<T> }
impl<T> Default for HashSet<T> { fn default() -> Self { HashSet { _t: PhantomData } } }
#[derive(Clone, Debug, Default, PartialEq, Eq, Hash)]
pub struct TrueName { _x: u8 }
//@@ TYPE src/check/name/mod.rs | struct | Name
impl PartialEq for Name { fn eq(&self, o: &Name) -> bool { unimplemented!() } }
pub struct Context { _x: u8 }
#[derive(Clone)]
pub struct TypeErr { _x: u8 }
pub type TypeResult<T> = Result<T, Vec<TypeErr>>;

verus! {

#[verifier::external_type_specification] pub struct ExPosition(Position);
#[verifier::external_type_specification] pub struct ExCaretPos(CaretPos);
#[verifier::external_type_specification] #[verifier::external_body] #[verifier::accept_recursive_types(T)]
pub struct ExHashSet<T>(HashSet<T>);
#[verifier::external_type_specification] #[verifier::external_body] pub struct ExTrueName(TrueName);
#[verifier::external_type_specification] pub struct ExName(Name);
#[verifier::external_type_specification] #[verifier::external_body] pub struct ExContext(Context);
#[verifier::external_type_specification] #[verifier::external_body] pub struct ExTypeErr(TypeErr);

/// A-STD-COLL: a HashSet is a finite collection of distinct members; iterating it yields each member once, in the set's order
pub uninterp spec fn mem(s: HashSet<TrueName>) -> Seq<TrueName>;
/// OUTLINED `&set` as the iterable of a `for`: the members, by reference
pub uninterp spec fn membs<'a>(s: HashSet<TrueName>) -> Seq<&'a TrueName>;
#[verifier::external_body]
pub fn verif_members<'a>(s: &'a HashSet<TrueName>) -> (r: Vec<&'a TrueName>)
    ensures r@ == membs(*s), membs(*s).len() == mem(*s).len(), forall|k: int| 0 <= k < mem(*s).len() ==> *(#[trigger] membs(*s)[k]) == mem(*s)[k],
{ unimplemented!() }

// ---- /repo functions with ASSUMED contracts in this unit (bodies pinned; TrueName::is_superset_of is PROVED in unit NULL) --------
//@@ ASSUME src/check/name/mod.rs | impl Empty for Name | is_empty
/// the member-level test (unit NULL proves the real TrueName::is_superset_of against the nullable rule tn_sup): Some(b) = Ok(b)
pub uninterp spec fn tn(sup: TrueName, sub: TrueName, ctx: Context) -> Option<bool>;
impl TrueName {
    #[verifier::external_body]
    pub fn is_superset_of(&self, other: &TrueName, ctx: &Context, pos: Position) -> (r: TypeResult<bool>)
        ensures match tn(*self, *other, *ctx) { Some(b) => r == Ok::<bool, Vec<TypeErr>>(b), None => r is Err && r->Err_0@.len() >= 1 },
    { unimplemented!() }
}
/// Name::is_empty (`self == &Name::empty() || names.iter().all(TrueName::is_empty)`): the unit type
pub uninterp spec fn name_empty(n: Name) -> bool;
impl Name {
    #[verifier::external_body]
    pub fn is_empty(&self) -> (r: bool) ensures r == name_empty(*self) { unimplemented!() }
}

/// A-REWRITE: `set.iter().map(f).collect::<Result<Vec<bool>, _>>()`: Ok with one result per member (in the set's order) iff f
/// succeeds on every member, otherwise the (first) error.  `val` is a ghost name for f's result on a member.
#[verifier::external_body]
pub fn verif_map_collect_results<F: Fn(&TrueName) -> TypeResult<bool>>(s: &HashSet<TrueName>, f: F, Ghost(val): Ghost<spec_fn(TrueName) -> Option<bool>>) -> (r: TypeResult<Vec<bool>>)
    requires forall|x: TrueName| #[trigger] f.requires((&x,)),
        forall|x: TrueName, out: TypeResult<bool>| #[trigger] f.ensures((&x,), out) ==> (match val(x) { Some(b) => out == Ok::<bool, Vec<TypeErr>>(b), None => out is Err && out->Err_0@.len() >= 1 }),
    ensures
        r matches Ok(v) ==> v@.len() == mem(*s).len() && forall|k: int| 0 <= k < v@.len() ==> val(mem(*s)[k]) == Some(#[trigger] v@[k]),
        r is Err ==> r->Err_0@.len() >= 1 && exists|k: int| 0 <= k < mem(*s).len() && val(#[trigger] mem(*s)[k]) is None,
{ unimplemented!() }
/// OUTLINED `v.clone().iter().all(|b| !*b)` / `v.iter().any(|b| *b)` on a Vec<bool>
#[verifier::external_body]
pub fn verif_all_false(v: &Vec<bool>) -> (r: bool) ensures r == (forall|k: int| 0 <= k < v@.len() ==> !(#[trigger] v@[k])) { unimplemented!() }
#[verifier::external_body]
pub fn verif_any_true(v: &Vec<bool>) -> (r: bool) ensures r == (exists|k: int| 0 <= k < v@.len() && #[trigger] v@[k]) { unimplemented!() }

// ---- specification, written from C06 / C20 ------------------------------------------------------------------------------------
/// member `o` of the required-below type is accepted by some member of `s`
pub open spec fn member_accepted(s: Name, o: TrueName, ctx: Context) -> bool {
    exists|k: int| 0 <= k < mem(s.names).len() && tn(#[trigger] mem(s.names)[k], o, ctx) == Some(true)
}
/// every comparison the test may make has an answer
pub open spec fn all_comparable(s: Name, o: Name, ctx: Context) -> bool {
    forall|i: int, k: int| 0 <= i < mem(o.names).len() && 0 <= k < mem(s.names).len() ==> tn(#[trigger] mem(s.names)[k], #[trigger] mem(o.names)[i], ctx) is Some
}
/// S may be used where O is expected
pub open spec fn accepts(s: Name, o: Name, ctx: Context) -> bool {
    if !name_empty(s) && name_empty(o) { false }
    else if o.is_interchangeable { exists|i: int| 0 <= i < mem(o.names).len() && member_accepted(s, #[trigger] mem(o.names)[i], ctx) }
    else { forall|i: int| 0 <= i < mem(o.names).len() ==> member_accepted(s, #[trigger] mem(o.names)[i], ctx) }
}

/// C06 at the level of unions: one member of the offered type that NO member of the required type accepts rejects the whole
/// offer — e.g. a nullable member `T?` against a union of non-nullable members, for which unit NULL proves the member-level
/// answer Some(false) — unless the offered type is interchangeable ("any of")
pub proof fn lemma_one_rejected_member_rejects_the_union(s: Name, o: Name, ctx: Context, i: int)
    requires !o.is_interchangeable, 0 <= i < mem(o.names).len(),
        forall|k: int| 0 <= k < mem(s.names).len() ==> tn(#[trigger] mem(s.names)[k], mem(o.names)[i], ctx) != Some(true),
    ensures !accepts(s, o, ctx),
{
    assert(!member_accepted(s, mem(o.names)[i], ctx));
}
/// C20: a single member that accepts every member of the offer makes the union accept it (unions only widen)
pub proof fn lemma_a_top_member_accepts_everything(s: Name, o: Name, ctx: Context, k: int)
    requires !o.is_interchangeable, !(!name_empty(s) && name_empty(o)), 0 <= k < mem(s.names).len(),
        forall|i: int| 0 <= i < mem(o.names).len() ==> tn(mem(s.names)[k], #[trigger] mem(o.names)[i], ctx) == Some(true),
    ensures accepts(s, o, ctx),
{
    assert forall|i: int| 0 <= i < mem(o.names).len() implies member_accepted(s, #[trigger] mem(o.names)[i], ctx) by {
        assert(tn(mem(s.names)[k], mem(o.names)[i], ctx) == Some(true));
    }
}

impl Name {
#[verifier::loop_isolation(false)]
//@@ FN src/check/name/mod.rs | impl IsSuperSet<Name> for Name | is_superset_of | props=C06,C20,C03
//@@ REPLACE
//@@< for name in &other.names
//@@> for name in nit: verif_members(&other.names)
//@@ REPLACE deep
//@@< let is_superset = |$sn: &TrueName| $$; let any_superset: Vec<_> = self .names .iter() .map(is_superset) .collect::<Result<_, _>>()?;
//@@> let any_superset: Vec<bool> = verif_map_collect_results(&self.names, |$sn: &TrueName| -> (res: TypeResult<bool>) ensures /*# a_member_is_compared_with_the_member_level_test [C06,C20] #*/ (match tn(*$sn, *name, *ctx) { Some(b) => res == Ok::<bool, Vec<TypeErr>>(b), None => res is Err && res->Err_0@.len() >= 1 }), { $$1 }, Ghost(|x: TrueName| tn(x, *name, *ctx)))?;
//@@ REPLACE
//@@< any_superset.clone().iter().all(|b| !*b)
//@@> verif_all_false(&any_superset)
//@@ REPLACE deep
//@@< self_is_super_of |= $$;
//@@> self_is_super_of = self_is_super_of || $$1; /* `|=` on bool spelled with `||`: the right-hand side has no effect */
//@@ REPLACE
//@@< any_superset.iter().any(|b| *b)
//@@> verif_any_true(&any_superset)
//@@ LOOPINV
//@@< for name in &other.names
//@@> invariant nit.history@ + nit.iter.remaining() == membs(other.names), nit.history@.len() == nit.index@, nit.index@ <= mem(other.names).len(), membs(other.names).len() == mem(other.names).len(), forall|k: int| 0 <= k < mem(other.names).len() ==> *(#[trigger] membs(other.names)[k]) == mem(other.names)[k],
//@@ HINT before
//@@< if !other.is_interchangeable && $$ {
//@@> let ghost k0 = nit.index@; assert(*name == mem(other.names)[k0]); let ghost vals = any_superset@; assert(vals.len() == mem(self.names).len()); assert(forall|k: int| 0 <= k < mem(self.names).len() ==> tn(#[trigger] mem(self.names)[k], mem(other.names)[k0], *ctx) == Some(vals[k]));
//@@ HINT after
//@@< if !other.is_interchangeable && $$ {
//@@> assert(!member_accepted(*self, mem(other.names)[k0], *ctx));
//@@ HINT after
//@@< self_is_super_of |= $$;
//@@> proof { if exists|k: int| 0 <= k < vals.len() && #[trigger] vals[k] { let kk = choose|k: int| 0 <= k < vals.len() && #[trigger] vals[k]; assert(tn(mem(self.names)[kk], mem(other.names)[k0], *ctx) == Some(true)); assert(member_accepted(*self, mem(other.names)[k0], *ctx)); } else { assert(!member_accepted(*self, mem(other.names)[k0], *ctx)); } if !other.is_interchangeable { assert(member_accepted(*self, mem(other.names)[k0], *ctx)); } }
//@@ INVCLAIM
//@@< for name in &other.names
//@@> (!other.is_interchangeable ==> forall|i: int| 0 <= i < nit.index@ ==> member_accepted(*self, #[trigger] mem(other.names)[i], *ctx)), //# loop_every_member_so_far_is_accepted_by_some_member [C06,C20]
//@@ INVCLAIM
//@@< for name in &other.names
//@@> (other.is_interchangeable ==> (self_is_super_of <==> exists|i: int| 0 <= i < nit.index@ && member_accepted(*self, #[trigger] mem(other.names)[i], *ctx))), //# loop_interchangeable_some_member_so_far_is_accepted [C06,C20]
    ensures
        // C06 / C20 at the level of union types: the verdict is `accepts`, whenever there is one
        r matches Ok(b) ==> b == accepts(*self, *other, *ctx),                   //# a_union_accepts_a_union_iff_every_member_is_accepted_by_some_member [C06,C20]
        r is Err ==> r->Err_0@.len() >= 1,                                       //# rejection_carries_a_diagnostic [C19]
//@@ END
}

} // verus!

fn main() {}
