//@@ UNIT NULL
// Unit NULL — src/check/name/true_name/mod.rs: the nullable-aware supertype test on TrueName.
// Bodies copied verbatim from /repo on every run.  The class layer (StringName::is_superset_of ->
// Context::class -> Class::has_parent) is an external callee with an assumed, uninterpreted contract.
#![allow(unused_imports, dead_code, unused_variables, non_snake_case)]
use vstd::prelude::*;
use std::cmp::Ordering;

//@@ INCLUDE pos_types.inc.rs
//@@ TYPE src/check/name/true_name/mod.rs | struct | TrueName
//@@ TYPE src/check/name/string_name/mod.rs | struct | StringName

// opaque stand-ins for types the unit only passes around
#[derive(Debug, Clone, PartialEq, Eq, Hash, PartialOrd, Ord)]
pub struct Name { _x: u8 }
pub struct Context { _x: u8 }
pub struct TypeErr { _x: u8 }
pub type TypeResult<T> = Result<T, Vec<TypeErr>>;
pub const NONE: &str = "None";

verus! {

#[verifier::external_type_specification] pub struct ExPosition(Position);
#[verifier::external_type_specification] pub struct ExCaretPos(CaretPos);
#[verifier::external_type_specification] pub struct ExTrueName(TrueName);
#[verifier::external_type_specification] pub struct ExStringName(StringName);
#[verifier::external_type_specification] #[verifier::external_body] pub struct ExName(Name);
#[verifier::external_type_specification] #[verifier::external_body] pub struct ExContext(Context);
#[verifier::external_type_specification] #[verifier::external_body] pub struct ExTypeErr(TypeErr);

// A-DERIVE: derived Clone is structural
pub assume_specification[<TrueName as Clone>::clone](t: &TrueName) -> (r: TrueName) ensures r == *t;
pub assume_specification[<StringName as Clone>::clone](t: &StringName) -> (r: StringName) ensures r == *t;

// ---- the class layer, abstracted (A-EXT) ------------------------------------------------------------
/// result of the class-level supertype test: Some(b) = Ok(b), None = Err (unknown class, ...)
pub uninterp spec fn cls_sup(sup: StringName, sub: StringName, ctx: Context) -> Option<bool>;
/// StringName::is_empty: the unit type `()` / the bare `Tuple`
pub uninterp spec fn sn_empty(v: StringName) -> bool;
/// the variant names the class of the None value
pub open spec fn is_none(v: StringName) -> bool { v.name@ == "None"@ }

impl StringName {
    #[verifier::external_body]
    pub fn is_superset_of(&self, other: &StringName, ctx: &Context, pos: Position) -> (r: TypeResult<bool>)
        ensures match cls_sup(*self, *other, *ctx) { Some(b) => r == Ok::<bool, Vec<TypeErr>>(b), None => r is Err },
    { unimplemented!() }

    #[verifier::external_body]
    pub fn is_empty(&self) -> (r: bool)
        ensures r == sn_empty(*self),
    { unimplemented!() }
}

/// outline of the `String == &str` comparison in `is_null` (text unchanged)
#[verifier::external_body]
pub fn verif_outline_name_is_none(v: &StringName) -> (r: bool)
    ensures r == is_none(*v),
{ v.name == NONE }

// ---- specification, written from C06 / C20 -------------------------------------------------------------
/// "sup may be used where sub is expected ... T and None are assignable to T? but T? is not
/// assignable to T"; the unit type is assignable only to itself.
pub open spec fn tn_sup(sup: TrueName, sub: TrueName, ctx: Context) -> Option<bool> {
    if !sn_empty(sup.variant) && sn_empty(sub.variant) {
        Some(false)
    } else if sup.is_nullable && is_none(sub.variant) {
        Some(true)                               // None -> T?
    } else if !sup.is_nullable && sub.is_nullable {
        Some(false)                              // T? -> T is rejected without consulting the class layer
    } else {
        cls_sup(sup.variant, sub.variant, ctx)   // otherwise the class layer decides (T -> T?, T -> T, T? -> T?)
    }
}

impl TrueName {
//@@ FN src/check/name/true_name/mod.rs | impl IsSuperSet<TrueName> for TrueName | is_superset_of
    ensures
        match tn_sup(*self, *other, *ctx) {
            Some(b) => r == Ok::<bool, Vec<TypeErr>>(b),
            None => r is Err,
        },                                                                       //# nullable_rule [C06,C20]
//@@ END
//@@ FN src/check/name/true_name/mod.rs | impl Empty for TrueName | is_empty
    ensures r == sn_empty(self.variant),                                         //# empty_is_variant_empty [C06,C20]
//@@ END
//@@ FN src/check/name/true_name/mod.rs | impl Nullable for TrueName | is_nullable
    ensures r == self.is_nullable,                                               //# nullable_flag [C06,C20]
//@@ END
//@@ FN src/check/name/true_name/mod.rs | impl Nullable for TrueName | is_null
//@@ OUTLINE
//@@< self.variant.name == NONE
//@@> verif_outline_name_is_none(&self.variant)
    ensures r == is_none(self.variant),                                          //# null_is_none_class [C06,C20]
//@@ END
//@@ FN src/check/name/true_name/mod.rs | impl Nullable for TrueName | as_nullable
    ensures r.is_nullable, r.variant == self.variant, r.is_mutable == self.is_mutable,   //# as_nullable_sets_only_flag [C06]
//@@ END
//@@ FN src/check/name/true_name/mod.rs | impl Mutable for TrueName | as_mutable
    ensures r.is_mutable, r.variant == self.variant, r.is_nullable == self.is_nullable,   //# as_mutable_sets_only_flag [C06,C20]
//@@ END
//@@ FN src/check/name/true_name/mod.rs | impl From<&StringName> for TrueName | from | as=from_string_name
    ensures !r.is_nullable, r.is_mutable, r.variant == *name,                    //# plain_name_not_nullable [C06]
//@@ END
}

// ---- property-level lemmas over the contract (no bound: all types, all contexts) ----------------------------
/// C06: an expression of type T? is rejected wherever a non-nullable T is required
pub proof fn lemma_nullable_into_plain_rejected(t: TrueName, tq: TrueName, ctx: Context)
    requires !t.is_nullable, tq.is_nullable,
    ensures tn_sup(t, tq, ctx) == Some(false),
{}

/// C06: None is accepted where T? is expected (for every T other than the unit type paired with ... see side condition)
pub proof fn lemma_none_into_nullable_accepted(tq: TrueName, none: TrueName, ctx: Context)
    requires tq.is_nullable, is_none(none.variant), !sn_empty(none.variant),
    ensures tn_sup(tq, none, ctx) == Some(true),
{}

/// C06: T is accepted where T? is expected exactly when the class layer accepts T for T
pub proof fn lemma_plain_into_nullable(tq: TrueName, t: TrueName, ctx: Context)
    requires tq.is_nullable, !t.is_nullable, !is_none(t.variant), !sn_empty(t.variant),
    ensures tn_sup(tq, t, ctx) == cls_sup(tq.variant, t.variant, ctx),
{}

/// C06: None itself (a non-nullable value of class None) is rejected for a non-nullable T unless the
/// class layer says None is a T
pub proof fn lemma_none_into_plain(t: TrueName, none: TrueName, ctx: Context)
    requires !t.is_nullable, !none.is_nullable, is_none(none.variant), !sn_empty(none.variant),
    ensures tn_sup(t, none, ctx) == cls_sup(t.variant, none.variant, ctx),
{}

/// C20: reflexive whenever the class layer is
pub proof fn lemma_reflexive(a: TrueName, ctx: Context)
    requires cls_sup(a.variant, a.variant, ctx) == Some(true),
    ensures tn_sup(a, a, ctx) == Some(true),
{}

/// C20: the mutability flag plays no role
pub proof fn lemma_mutability_irrelevant(a: TrueName, b: TrueName, a2: TrueName, b2: TrueName, ctx: Context)
    requires a2.variant == a.variant, a2.is_nullable == a.is_nullable, b2.variant == b.variant, b2.is_nullable == b.is_nullable,
    ensures tn_sup(a, b, ctx) == tn_sup(a2, b2, ctx),
{}

/// C20: transitive whenever the class layer is transitive on the triple, under the exact side conditions
/// this layer needs: nothing but None sits below the class None, and the unit type sits below non-unit
/// types nowhere at class level.  (The side conditions are reported as assumptions, not hidden.)
pub proof fn lemma_transitive(a: TrueName, b: TrueName, c: TrueName, ctx: Context)
    requires
        tn_sup(a, b, ctx) == Some(true), tn_sup(b, c, ctx) == Some(true),
        // class layer transitive on this triple
        cls_sup(a.variant, b.variant, ctx) == Some(true) && cls_sup(b.variant, c.variant, ctx) == Some(true)
            ==> cls_sup(a.variant, c.variant, ctx) == Some(true),
        // nothing but None below None
        is_none(b.variant) && cls_sup(b.variant, c.variant, ctx) == Some(true) ==> is_none(c.variant),
    ensures tn_sup(a, c, ctx) == Some(true),
{}

/// C20: every non-nullable, non-unit type is assignable to Any whenever the class layer says so
pub proof fn lemma_any_top(any: TrueName, t: TrueName, ctx: Context)
    requires !t.is_nullable, !sn_empty(t.variant), cls_sup(any.variant, t.variant, ctx) == Some(true),
    ensures tn_sup(any, t, ctx) == Some(true),
{}

} // verus!

fn main() {}
