// ---- meaning of the fragment (C01): hom(a, c) implies equal value in every environment --------------------------
pub enum Val { I(int), B(bool), Stuck }
pub type Env = spec_fn(Seq<char>) -> Val;
/// value of a decimal literal (same digits => same value on both sides)
pub uninterp spec fn int_of(s: Seq<char>) -> int;

pub open spec fn v_add(a: Val, b: Val) -> Val { match (a, b) { (Val::I(x), Val::I(y)) => Val::I(x + y), _ => Val::Stuck } }
pub open spec fn v_sub(a: Val, b: Val) -> Val { match (a, b) { (Val::I(x), Val::I(y)) => Val::I(x - y), _ => Val::Stuck } }
pub open spec fn v_mul(a: Val, b: Val) -> Val { match (a, b) { (Val::I(x), Val::I(y)) => Val::I(x * y), _ => Val::Stuck } }
/// floor division / modulo with the sign of the divisor (Python `//`, `%`; Mamba `//`, `mod`); division by zero is stuck (raises)
pub open spec fn floor_div(x: int, y: int) -> int { if y > 0 { x / y } else { (-x) / (-y) } }
pub open spec fn v_fdiv(a: Val, b: Val) -> Val { match (a, b) { (Val::I(x), Val::I(y)) => if y == 0 { Val::Stuck } else { Val::I(floor_div(x, y)) }, _ => Val::Stuck } }
pub open spec fn v_mod(a: Val, b: Val) -> Val { match (a, b) { (Val::I(x), Val::I(y)) => if y == 0 { Val::Stuck } else { Val::I(x - y * floor_div(x, y)) }, _ => Val::Stuck } }
pub open spec fn ipow(x: int, n: nat) -> int decreases n { if n == 0 { 1 } else { x * ipow(x, (n - 1) as nat) } }
pub open spec fn v_pow(a: Val, b: Val) -> Val { match (a, b) { (Val::I(x), Val::I(y)) => if y < 0 { Val::Stuck } else { Val::I(ipow(x, y as nat)) }, _ => Val::Stuck } }
pub open spec fn v_lt(a: Val, b: Val) -> Val { match (a, b) { (Val::I(x), Val::I(y)) => Val::B(x < y), _ => Val::Stuck } }
pub open spec fn v_le(a: Val, b: Val) -> Val { match (a, b) { (Val::I(x), Val::I(y)) => Val::B(x <= y), _ => Val::Stuck } }
pub open spec fn v_gt(a: Val, b: Val) -> Val { match (a, b) { (Val::I(x), Val::I(y)) => Val::B(x > y), _ => Val::Stuck } }
pub open spec fn v_ge(a: Val, b: Val) -> Val { match (a, b) { (Val::I(x), Val::I(y)) => Val::B(x >= y), _ => Val::Stuck } }
pub open spec fn v_eq(a: Val, b: Val) -> Val { match (a, b) { (Val::I(x), Val::I(y)) => Val::B(x == y), (Val::B(x), Val::B(y)) => Val::B(x == y), _ => Val::Stuck } }
pub open spec fn v_ne(a: Val, b: Val) -> Val { match (a, b) { (Val::I(x), Val::I(y)) => Val::B(x != y), (Val::B(x), Val::B(y)) => Val::B(x != y), _ => Val::Stuck } }
/// short-circuit on booleans: the right operand is not evaluated (may be stuck) when the left decides
pub open spec fn v_and(a: Val, b: Val) -> Val { match a { Val::B(false) => Val::B(false), Val::B(true) => (match b { Val::B(y) => Val::B(y), _ => Val::Stuck }), _ => Val::Stuck } }
pub open spec fn v_or(a: Val, b: Val) -> Val { match a { Val::B(true) => Val::B(true), Val::B(false) => (match b { Val::B(y) => Val::B(y), _ => Val::Stuck }), _ => Val::Stuck } }
pub open spec fn v_not(a: Val) -> Val { match a { Val::B(x) => Val::B(!x), _ => Val::Stuck } }
pub open spec fn v_pos(a: Val) -> Val { match a { Val::I(x) => Val::I(x), _ => Val::Stuck } }
pub open spec fn v_neg(a: Val) -> Val { match a { Val::I(x) => Val::I(-x), _ => Val::Stuck } }

/// meaning of a Mamba expression of the fragment (docs/spec: integer and boolean operators)
pub open spec fn ev_m(a: ASTTy, env: Env) -> Val
    decreases a
{
    match a.node {
        NodeTy::Int { lit } => Val::I(int_of(lit@)),
        NodeTy::Bool { lit } => Val::B(lit),
        NodeTy::Id { lit } => env(py_name(lit@)),
        NodeTy::Add { left, right } => v_add(ev_m(*left, env), ev_m(*right, env)),
        NodeTy::Sub { left, right } => v_sub(ev_m(*left, env), ev_m(*right, env)),
        NodeTy::Mul { left, right } => v_mul(ev_m(*left, env), ev_m(*right, env)),
        NodeTy::FDiv { left, right } => v_fdiv(ev_m(*left, env), ev_m(*right, env)),
        NodeTy::Mod { left, right } => v_mod(ev_m(*left, env), ev_m(*right, env)),
        NodeTy::Pow { left, right } => v_pow(ev_m(*left, env), ev_m(*right, env)),
        NodeTy::Le { left, right } => v_lt(ev_m(*left, env), ev_m(*right, env)),
        NodeTy::Leq { left, right } => v_le(ev_m(*left, env), ev_m(*right, env)),
        NodeTy::Ge { left, right } => v_gt(ev_m(*left, env), ev_m(*right, env)),
        NodeTy::Geq { left, right } => v_ge(ev_m(*left, env), ev_m(*right, env)),
        NodeTy::Eq { left, right } => v_eq(ev_m(*left, env), ev_m(*right, env)),
        NodeTy::Neq { left, right } => v_ne(ev_m(*left, env), ev_m(*right, env)),
        NodeTy::And { left, right } => v_and(ev_m(*left, env), ev_m(*right, env)),
        NodeTy::Or { left, right } => v_or(ev_m(*left, env), ev_m(*right, env)),
        NodeTy::Not { expr } => v_not(ev_m(*expr, env)),
        NodeTy::AddU { expr } => v_pos(ev_m(*expr, env)),
        NodeTy::SubU { expr } => v_neg(ev_m(*expr, env)),
        _ => Val::Stuck,
    }
}

/// meaning of the emitted Python expression (Python 3 integers are unbounded, like spec ints)
pub open spec fn ev_p(c: Core, env: Env) -> Val
    decreases c
{
    match c {
        Core::Int { int: i } => Val::I(int_of(i@)),
        Core::Bool { boolean } => Val::B(boolean),
        Core::Id { lit } => env(lit@),
        Core::Add { left, right } => v_add(ev_p(*left, env), ev_p(*right, env)),
        Core::Sub { left, right } => v_sub(ev_p(*left, env), ev_p(*right, env)),
        Core::Mul { left, right } => v_mul(ev_p(*left, env), ev_p(*right, env)),
        Core::FDiv { left, right } => v_fdiv(ev_p(*left, env), ev_p(*right, env)),
        Core::Mod { left, right } => v_mod(ev_p(*left, env), ev_p(*right, env)),
        Core::Pow { left, right } => v_pow(ev_p(*left, env), ev_p(*right, env)),
        Core::Le { left, right } => v_lt(ev_p(*left, env), ev_p(*right, env)),
        Core::Leq { left, right } => v_le(ev_p(*left, env), ev_p(*right, env)),
        Core::Ge { left, right } => v_gt(ev_p(*left, env), ev_p(*right, env)),
        Core::Geq { left, right } => v_ge(ev_p(*left, env), ev_p(*right, env)),
        Core::Eq { left, right } => v_eq(ev_p(*left, env), ev_p(*right, env)),
        Core::Neq { left, right } => v_ne(ev_p(*left, env), ev_p(*right, env)),
        Core::And { left, right } => v_and(ev_p(*left, env), ev_p(*right, env)),
        Core::Or { left, right } => v_or(ev_p(*left, env), ev_p(*right, env)),
        Core::Not { expr } => v_not(ev_p(*expr, env)),
        Core::AddU { expr } => v_pos(ev_p(*expr, env)),
        Core::SubU { expr } => v_neg(ev_p(*expr, env)),
        _ => Val::Stuck,
    }
}

/// C01: a structure-preserving image has the same value in every environment
pub proof fn lemma_hom_preserves_meaning(a: ASTTy, c: Core, env: Env)
    requires hom(a, c),
    ensures ev_p(c, env) == ev_m(a, env),
    decreases a,
{
    match a.node {
        NodeTy::Add { left, right } => {
            match c { Core::Add { left: l, right: r } => { lemma_hom_preserves_meaning(*left, *l, env); lemma_hom_preserves_meaning(*right, *r, env); }, _ => {} }
        },
        NodeTy::Sub { left, right } => {
            match c { Core::Sub { left: l, right: r } => { lemma_hom_preserves_meaning(*left, *l, env); lemma_hom_preserves_meaning(*right, *r, env); }, _ => {} }
        },
        NodeTy::Mul { left, right } => {
            match c { Core::Mul { left: l, right: r } => { lemma_hom_preserves_meaning(*left, *l, env); lemma_hom_preserves_meaning(*right, *r, env); }, _ => {} }
        },
        NodeTy::FDiv { left, right } => {
            match c { Core::FDiv { left: l, right: r } => { lemma_hom_preserves_meaning(*left, *l, env); lemma_hom_preserves_meaning(*right, *r, env); }, _ => {} }
        },
        NodeTy::Mod { left, right } => {
            match c { Core::Mod { left: l, right: r } => { lemma_hom_preserves_meaning(*left, *l, env); lemma_hom_preserves_meaning(*right, *r, env); }, _ => {} }
        },
        NodeTy::Pow { left, right } => {
            match c { Core::Pow { left: l, right: r } => { lemma_hom_preserves_meaning(*left, *l, env); lemma_hom_preserves_meaning(*right, *r, env); }, _ => {} }
        },
        NodeTy::Le { left, right } => {
            match c { Core::Le { left: l, right: r } => { lemma_hom_preserves_meaning(*left, *l, env); lemma_hom_preserves_meaning(*right, *r, env); }, _ => {} }
        },
        NodeTy::Leq { left, right } => {
            match c { Core::Leq { left: l, right: r } => { lemma_hom_preserves_meaning(*left, *l, env); lemma_hom_preserves_meaning(*right, *r, env); }, _ => {} }
        },
        NodeTy::Ge { left, right } => {
            match c { Core::Ge { left: l, right: r } => { lemma_hom_preserves_meaning(*left, *l, env); lemma_hom_preserves_meaning(*right, *r, env); }, _ => {} }
        },
        NodeTy::Geq { left, right } => {
            match c { Core::Geq { left: l, right: r } => { lemma_hom_preserves_meaning(*left, *l, env); lemma_hom_preserves_meaning(*right, *r, env); }, _ => {} }
        },
        NodeTy::Eq { left, right } => {
            match c { Core::Eq { left: l, right: r } => { lemma_hom_preserves_meaning(*left, *l, env); lemma_hom_preserves_meaning(*right, *r, env); }, _ => {} }
        },
        NodeTy::Neq { left, right } => {
            match c { Core::Neq { left: l, right: r } => { lemma_hom_preserves_meaning(*left, *l, env); lemma_hom_preserves_meaning(*right, *r, env); }, _ => {} }
        },
        NodeTy::And { left, right } => {
            match c { Core::And { left: l, right: r } => { lemma_hom_preserves_meaning(*left, *l, env); lemma_hom_preserves_meaning(*right, *r, env); }, _ => {} }
        },
        NodeTy::Or { left, right } => {
            match c { Core::Or { left: l, right: r } => { lemma_hom_preserves_meaning(*left, *l, env); lemma_hom_preserves_meaning(*right, *r, env); }, _ => {} }
        },
        NodeTy::Not { expr } => {
            match c { Core::Not { expr: e } => { lemma_hom_preserves_meaning(*expr, *e, env); }, _ => {} }
        },
        NodeTy::AddU { expr } => {
            match c { Core::AddU { expr: e } => { lemma_hom_preserves_meaning(*expr, *e, env); }, _ => {} }
        },
        NodeTy::SubU { expr } => {
            match c { Core::SubU { expr: e } => { lemma_hom_preserves_meaning(*expr, *e, env); }, _ => {} }
        },
        NodeTy::IsNA { left, right } => {
            // `isna` -> `not isinstance(..)`: outside the int/bool evaluators (stuck on both sides)
            match c { Core::Not { expr: e } => { assert(ev_p(*e, env) == Val::Stuck); }, _ => {} }
        },
        _ => {},
    }
}
