//@@ UNIT CONVDEF
// Unit CONVDEF — src/generate/convert/{definition.rs::convert_def, range_slice.rs::convert_range_slice,
// state.rs::State builders}.  Bodies copied verbatim from /repo on every run.  The recursive callee
// convert_node / convert_vec is external here with an UNINTERPRETED functional contract `conv`: the only
// way to prove `body == conv(expr, S)` is to call the callee with exactly the state S.
#![feature(allocator_api)]
#![allow(unused_imports, dead_code, unused_variables, non_snake_case, unused_mut)]
use vstd::prelude::*;
use std::ops::Deref;

//@@ INCLUDE conv_types.inc.rs
//@@ INCLUDE conv_imports_stub.inc.rs
//@@ TYPE src/check/name/true_name/mod.rs | struct | TrueName

// ---- /repo functions with ASSUMED contracts in this unit (bodies pinned; convert_node / convert_vec are PROVED in unit CONVNODE) --
//@@ ASSUME src/generate/convert/state.rs | impl Imports | add_from_import
verus! {

//@@ INCLUDE conv_ext.inc.rs
#[verifier::external_type_specification] pub struct ExTrueName(TrueName);

pub mod clss { pub mod python {
//@@ CONST src/check/context/clss/python.rs | RANGE
//@@ CONST src/check/context/clss/python.rs | SLICE
} }
pub mod function { pub mod python {
//@@ CONST src/check/context/function/python.rs | INIT
} }
//@@ CONST src/check/context/arg/python.rs | SELF


// ---- external callees with assumed functional contracts (A-EXT) -----------------------------------------
/// what convert_node returns for (ast, state, ctx): Some(core) = Ok(core), None = Err.
/// A-IMPORTS-INERT: the produced Core does not depend on the contents of `Imports`.
pub uninterp spec fn conv(ast: ASTTy, state: State, ctx: Context) -> Option<Core>;
/// abstract view of the import table: `from <module> import <name>` is registered.
/// A-EXT: every callee that receives the table only ever adds to it (monotone).
pub uninterp spec fn imp_has_from(i: Imports, module: Seq<char>, name: Seq<char>) -> bool;
pub uninterp spec fn convvec(asts: Seq<ASTTy>, state: State, ctx: Context) -> Option<Seq<Core>>;

#[verifier::external_body]
pub fn convert_node(ast: &ASTTy, imp: &mut Imports, state: &State, ctx: &Context) -> (r: GenResult)
    ensures match conv(*ast, *state, *ctx) { Some(c) => r == Ok::<Core, Box<UnimplementedErr>>(c), None => r is Err },
        forall|m: Seq<char>, n: Seq<char>| imp_has_from(*old(imp), m, n) ==> imp_has_from(*final(imp), m, n),
{ unimplemented!() }

#[verifier::external_body]
pub fn convert_vec(node_vec: &[ASTTy], imp: &mut Imports, state: &State, ctx: &Context) -> (r: GenResult<Vec<Core>>)
    ensures match convvec(node_vec@, *state, *ctx) { Some(v) => r is Ok && r->Ok_0@ == v, None => r is Err },
        forall|m: Seq<char>, n: Seq<char>| imp_has_from(*old(imp), m, n) ==> imp_has_from(*final(imp), m, n),
{ unimplemented!() }

impl UnimplementedErr {
    #[verifier::external_body]
    pub fn new(ast: &ASTTy, msg: &str) -> UnimplementedErr { unimplemented!() }
}

pub trait ToPy { fn to_py(&self, imp: &mut Imports) -> Core; }
impl ToPy for Name {
    #[verifier::external_body]
    fn to_py(&self, imp: &mut Imports) -> (r: Core) ensures r == name_to_py(*self), forall|m: Seq<char>, n: Seq<char>| imp_has_from(*old(imp), m, n) ==> imp_has_from(*final(imp), m, n) { unimplemented!() }
}
/// the Python spelling of a type; A-EXT: a function of the Name alone (unit NAMEPY: of its SET of members; the import table only grows)
pub uninterp spec fn name_to_py(n: Name) -> Core;
impl ToPy for StringName {
    #[verifier::external_body]
    fn to_py(&self, imp: &mut Imports) -> (r: Core) ensures r == sn_to_py(*self), forall|m: Seq<char>, n: Seq<char>| imp_has_from(*old(imp), m, n) ==> imp_has_from(*final(imp), m, n) { unimplemented!() }
}
/// the Python spelling of a (function / class) name; A-EXT: a function of the name alone
pub uninterp spec fn sn_to_py(n: StringName) -> Core;
impl ToPy for ASTTy {
    #[verifier::external_body]
    fn to_py(&self, imp: &mut Imports) -> (r: Core) ensures forall|m: Seq<char>, n: Seq<char>| imp_has_from(*old(imp), m, n) ==> imp_has_from(*final(imp), m, n) { unimplemented!() }
}

impl Imports {
    #[verifier::external_body]
    pub fn add_from_import(&mut self, from: &str, import: &str)
        ensures imp_has_from(*final(self), from@, import@),
            forall|m: Seq<char>, n: Seq<char>| imp_has_from(*old(self), m, n) ==> imp_has_from(*final(self), m, n),
    { unimplemented!() }
}

pub uninterp spec fn fun_op_of(lit: Seq<char>) -> Option<CoreFunOp>;
impl CoreFunOp {
    #[verifier::external_body]
    pub fn from(lit: &str) -> (r: Option<CoreFunOp>)
        ensures r == fun_op_of(lit@),
    { unimplemented!() }
}

/// outline (text unchanged) of the `match lit.as_str() { "size" => .., INIT => .., other => .. }`
/// in convert_def: Verus does not take `match` on string literals.
pub uninterp spec fn fun_name_of(lit: Seq<char>) -> Seq<char>;
#[verifier::external_body]
pub fn verif_outline_fun_name(lit: &String) -> (r: String)
    ensures r@ == fun_name_of(lit@),
{
    match lit.as_str() {
        "size" => String::from("__size__"),
        function::python::INIT => String::from("__init__"),
        other => String::from(other),
    }
}

// ---- specification (from C11 / C01) ---------------------------------------------------------------------------
/// C01 "implicit return of a function's last expression" + C11 "the flag only adds annotations":
/// the body of a function is converted in a state that differs from the caller's only in
/// expand_ty = true and is_last_must_be_ret = (a return type is DECLARED) — never in anything
/// derived from `annotate`.
pub open spec fn fundef_body_state(s: State, ret_declared: bool) -> State {
    State { expand_ty: true, is_last_must_be_ret: ret_declared, ..s }
}

pub open spec fn core_body(c: Core) -> Option<Core> {
    match c {
        Core::FunDef { dec, id, arg, ty, body } => Some(*body),
        Core::FunDefOp { op, arg, ty, body } => Some(*body),
        _ => None,
    }
}
pub open spec fn core_fun_ty(c: Core) -> Option<Option<Box<Core>>> {
    match c {
        Core::FunDef { dec, id, arg, ty, body } => Some(ty),
        Core::FunDefOp { op, arg, ty, body } => Some(ty),
        _ => None,
    }
}
pub open spec fn core_fun_args(c: Core) -> Option<Seq<Core>> {
    match c {
        Core::FunDef { dec, id, arg, ty, body } => Some(arg@),
        Core::FunDefOp { op, arg, ty, body } => Some(arg@),
        _ => None,
    }
}

pub open spec fn fundef_post(ast: ASTTy, state: State, ctx: Context, c: Core) -> bool {
    match ast.node {
        NodeTy::FunDef { id, args, ret, raises, body, pure } => {
            &&& core_body(c) is Some
            &&& (body matches Some(expr) ==> core_body(c) == conv(*expr, fundef_body_state(state, ret is Some), ctx))
            &&& (body is None ==> core_body(c) == Some(Core::Pass))
            &&& core_fun_args(c) == convvec(args@, state, ctx)
        },
        _ => true,
    }
}

/// C17 "same parameter names in the same order and the same defaults and variadic markers": a parameter keeps its variadic
/// marker, its name is the conversion of the declared name, it has a default iff one is declared, and that is its conversion
pub open spec fn funarg_post(ast: ASTTy, state: State, ctx: Context, c: Core) -> bool {
    match ast.node {
        NodeTy::FunArg { vararg, mutable, var, ty, default } =>
            c matches Core::FunArg { vararg: v2, var: cv, ty: t2, default: d2 }
            && v2 == vararg && Some(*cv) == conv(*var, state, ctx)
            && (match default { Some(d) => d2 matches Some(dd) && Some(*dd) == conv(*d, state, ctx), None => d2 is None }),
        _ => true,
    }
}
/// C17 "exists in the emitted module under the same name": a plain (non-operator) function is emitted under the conversion
/// of its declared name — up to the renaming table size -> __size__, init -> __init__ (the outlined string match)
pub open spec fn fun_id_post(ast: ASTTy, state: State, ctx: Context, c: Core) -> bool {
    match (ast.node, c) {
        (NodeTy::FunDef { id, args, ret, raises, body, pure }, Core::FunDef { dec, id: cid, arg, ty, body: cb }) =>
            conv(*id, state, ctx) matches Some(Core::Id { lit }) && cid@ == fun_name_of(lit@),
        _ => true,
    }
}

/// C16: a function emitted with the `abstractmethod` decorator has `from abc import abstractmethod`
/// registered by the time it is returned
pub open spec fn abstract_post(ast: ASTTy, state: State, c: Core, imp: Imports) -> bool {
    match (ast.node, c) {
        (NodeTy::FunDef { .. }, Core::FunDef { dec, id, arg, ty, body }) =>
            dec@.len() > 0 ==> (dec@.len() == 1 && dec@[0]@ == "abstractmethod"@ && imp_has_from(imp, "abc"@, "abstractmethod"@)),
        _ => true,
    }
}

pub open spec fn fundef_ty_post(ast: ASTTy, state: State, c: Core) -> bool {
    match ast.node {
        NodeTy::FunDef { id, args, ret, raises, body, pure } =>
            core_fun_ty(c) is Some && (core_fun_ty(c)->Some_0 is Some) == (state.annotate && ret is Some),
        _ => true,
    }
}

// ---- range / slice: C01 "exclusive/inclusive ranges with step" -----------------------------------------------
pub open spec fn int_lit(s: Seq<char>) -> Core { Core::Int { int: arbitrary_string_with_view(s) } }
pub uninterp spec fn arbitrary_string_with_view(s: Seq<char>) -> String;

pub open spec fn is_int_one(c: Core) -> bool { c matches Core::Int { int: i } && i@ == "1"@ }
pub open spec fn is_id(c: Core, name: Seq<char>) -> bool { c matches Core::Id { lit } && lit@ == name }

/// shape demanded of the desugared range: range(from, to [+ 1 iff inclusive], step or 1)
pub open spec fn range_post(ast: ASTTy, state: State, ctx: Context, c: Core) -> bool {
    match ast.node {
        NodeTy::Range { from, to, inclusive, step } => {
            c matches Core::FunctionCall { function, args }
            && is_id(*function, "range"@)
            && args@.len() == 3
            && Some(args@[0]) == conv(*from, state, ctx)
            && (if inclusive {
                    args@[1] matches Core::Add { left, right } && Some(*left) == conv(*to, state, ctx) && is_int_one(*right)
                } else { Some(args@[1]) == conv(*to, state, ctx) })
            && (match step { Some(s) => Some(args@[2]) == conv(*s, state, ctx), None => is_int_one(args@[2]) })
        },
        _ => true,
    }
}


// ---- meaning of the range desugaring (C01 "exclusive/inclusive ranges with step"), positive steps --------------------
/// elements of Python's range(a, b, s) for s > 0
pub open spec fn rng_p(a: int, b: int, s: int) -> Seq<int>
    decreases (if b - a > 0 { b - a } else { 0 }) when s > 0
{
    if a >= b { Seq::empty() } else { seq![a] + rng_p(a + s, b, s) }
}
/// elements of the Mamba range `a .. b .. s` (exclusive) / `a ..= b .. s` (inclusive) for s > 0
pub open spec fn rng_m(a: int, b: int, inclusive: bool, s: int) -> Seq<int>
    decreases (if b - a + 1 > 0 { b - a + 1 } else { 0 }) when s > 0
{
    if (inclusive && a > b) || (!inclusive && a >= b) { Seq::empty() } else { seq![a] + rng_m(a + s, b, inclusive, s) }
}
/// range_post's shape — range(from, to + 1 iff inclusive, step or 1) — denotes exactly the Mamba range
pub proof fn lemma_range_desugaring_meaning(a: int, b: int, inclusive: bool, s: int)
    requires s > 0,
    ensures rng_p(a, if inclusive { b + 1 } else { b }, s) == rng_m(a, b, inclusive, s),
    decreases (if b - a + 1 > 0 { b - a + 1 } else { 0 }),
{
    let hi = if inclusive { b + 1 } else { b };
    if a >= hi {
    } else {
        lemma_range_desugaring_meaning(a + s, b, inclusive, s);
    }
}

impl State {
//@@ FN src/generate/convert/state.rs | impl State | new
    ensures !r.annotate, !r.is_last_must_be_ret, r.must_assign_to is None, r.expand_ty, !r.def_as_fun_arg, !r.interface, !r.tup_lit, !r.is_remove_last_ret,   //# default_state [C11]
//@@ END
//@@ FN src/generate/convert/state.rs | impl State | in_tup
    ensures r == (State { tup: tup, ..*self }),                                  //# frame_only_tup [C11]
//@@ END
//@@ FN src/generate/convert/state.rs | impl State | tuple_literal
    ensures r == (State { tup_lit: true, ..*self }),                             //# frame_only_tup_lit [C11]
//@@ END
//@@ FN src/generate/convert/state.rs | impl State | in_interface
    ensures r == (State { interface: interface, ..*self }),                      //# frame_only_interface [C11]
//@@ END
//@@ FN src/generate/convert/state.rs | impl State | expand_ty
    ensures r == (State { expand_ty: expand_ty, ..*self }),                      //# frame_only_expand_ty [C11]
//@@ END
//@@ FN src/generate/convert/state.rs | impl State | remove_ret
    ensures r == (State { is_remove_last_ret: remove_ret, ..*self }),            //# frame_only_remove_ret [C11]
//@@ END
//@@ FN src/generate/convert/state.rs | impl State | is_last_must_be_ret
    ensures r == (State { is_last_must_be_ret: last_return, ..*self }),          //# frame_only_last_ret [C11,C01]
//@@ END
//@@ FN src/generate/convert/state.rs | impl State | def_as_fun_arg
    ensures r == (State { def_as_fun_arg: def_as_fun_arg, ..*self }),            //# frame_only_def_as_fun_arg [C11]
//@@ END
//@@ FN src/generate/convert/state.rs | impl State | must_assign_to
    ensures
        r.annotate == self.annotate, r.is_last_must_be_ret == self.is_last_must_be_ret, r.expand_ty == self.expand_ty,
        r.interface == self.interface, r.tup == self.tup, r.tup_lit == self.tup_lit, r.def_as_fun_arg == self.def_as_fun_arg,
        r.is_remove_last_ret == self.is_remove_last_ret,                         //# frame_only_must_assign_to [C11]
        must_assign_to is None ==> r.must_assign_to is None,
        must_assign_to matches Some(c) ==> r.must_assign_to == Some((*c, name)), //# must_assign_to_value [C11,C01]
//@@ END
}

//@@ FN src/generate/convert/range_slice.rs | free | convert_range_slice
    ensures
        r matches Ok(c) ==> range_post(*ast, *state, *ctx, c),                   //# range_desugaring_shape [C01]
//@@ END

//@@ FN src/generate/convert/definition.rs | free | convert_def
//@@ HAVOC
//@@< expr.clone().ty.map(|name| name.to_py(imp)).map(Box::from)
//@@> verif_havoc::<Option<Box<Core>>>()
//@@ HAVOC
//@@< ty.as_ref().map(|ty| ty.to_py(imp)).map(Box::from)
//@@> verif_havoc::<Option<Box<Core>>>()
//@@ OUTLINE
//@@< match lit.as_str() { "size" => String::from("__size__"), function::python::INIT => String::from("__init__"), other => String::from(other), }
//@@> verif_outline_fun_name(lit)
    ensures
        r matches Ok(c) ==> fundef_post(*ast, *state, *ctx, c),                  //# implicit_return_keyed_on_declared_type [C11,C01,C17]
        r matches Ok(c) ==> funarg_post(*ast, *state, *ctx, c),                  //# parameter_keeps_name_variadic_marker_and_default [C17]
        r matches Ok(c) ==> fun_id_post(*ast, *state, *ctx, c),                  //# function_is_emitted_under_its_declared_name [C17]
        r matches Ok(c) ==> fundef_ty_post(*ast, *state, c),                     //# annotate_gates_only_the_annotation [C11]
        r matches Ok(c) ==> abstract_post(*ast, *state, c, *final(imp)),         //# abstractmethod_import_registered [C16]
        forall|m: Seq<char>, n: Seq<char>| imp_has_from(*old(imp), m, n) ==> imp_has_from(*final(imp), m, n),   //# imports_only_grow [C16]
//@@ END

// ---- control flow (C01 "if/match/while/for"; "if/match as expression -> assignment in every branch or ternary") --------
/// state in which conditions and match subjects are converted: no pending assign / return request
pub open spec fn cond_state(s: State) -> State { State { is_last_must_be_ret: false, must_assign_to: None, ..s } }
/// state of the two arms of a ternary: additionally an explicit `return` in an arm is removed
pub open spec fn ternary_state(s: State) -> State { State { is_last_must_be_ret: false, is_remove_last_ret: true, must_assign_to: None, ..s } }

/// C01: an arm may become an operand of a Python conditional expression only if it is an expression; an explicit
/// `return e` may be folded to `e` only if the conditional expression itself is what the function returns
/// (`return (a if c else b)` means the same as `if c: return a else: return b`) — never when it is assigned
pub open spec fn ternary_arm_ok(arm: ASTTy, returned: bool) -> bool {
    !(arm.node is Block) && !(arm.node is Raise) && ((arm.node is Return || arm.node is ReturnEmpty) ==> returned)
}
pub open spec fn ternary_ok(then: ASTTy, el: ASTTy, returned: bool) -> bool {
    ternary_arm_ok(then, returned) && ternary_arm_ok(el, returned)
}

pub open spec fn well_formed_case(c: ASTTy) -> bool {
    c.node matches NodeTy::Case { cond, body } && cond.node is ExpressionType
}

pub open spec fn case_image(c: ASTTy, state: State, ctx: Context, out: Core) -> bool {
    match c.node {
        NodeTy::Case { cond, body } => match cond.node {
            NodeTy::ExpressionType { expr, mutable, ty } =>
                out matches Core::Case { expr: e2, body: b2 }
                && Some(*e2) == conv(*expr, cond_state(state), ctx) && Some(*b2) == conv(*body, state, ctx),
            _ => false,
        },
        _ => false,
    }
}

/// what convert_cntrl_flow must return: every branch / body is converted in the CALLER's state (so a pending
/// "assign the result to x" or "return the result" request reaches every branch), conditions in cond_state
pub open spec fn cf_post(ast: ASTTy, state: State, ctx: Context, c: Core) -> bool {
    match ast.node {
        NodeTy::IfElse { cond, then, el } => match el {
            Some(e) =>
                if ast.ty is Some && ternary_ok(*then, *e, state.is_last_must_be_ret) {
                    c matches Core::Ternary { cond: c2, then: t2, el: e2 }
                    && Some(*c2) == conv(*cond, cond_state(state), ctx)
                    && Some(*t2) == conv(*then, ternary_state(state), ctx) && Some(*e2) == conv(*e, ternary_state(state), ctx)
                } else {
                    c matches Core::IfElse { cond: c2, then: t2, el: e2 }
                    && Some(*c2) == conv(*cond, cond_state(state), ctx)
                    && Some(*t2) == conv(*then, state, ctx) && Some(*e2) == conv(*e, state, ctx)
                },
            None =>
                c matches Core::If { cond: c2, then: t2 }
                && Some(*c2) == conv(*cond, cond_state(state), ctx) && Some(*t2) == conv(*then, state, ctx),
        },
        NodeTy::While { cond, body } =>
            c matches Core::While { cond: c2, body: b2 } && Some(*c2) == conv(*cond, state, ctx) && Some(*b2) == conv(*body, state, ctx),
        NodeTy::For { expr, col, body } =>
            c matches Core::For { expr: x2, col: c2, body: b2 }
            && Some(*x2) == conv(*expr, state, ctx) && Some(*c2) == conv(*col, state, ctx) && Some(*b2) == conv(*body, state, ctx),
        NodeTy::Match { cond, cases } =>
            c matches Core::Match { expr: x2, cases: k2 }
            && Some(*x2) == conv(*cond, cond_state(state), ctx)
            && k2@.len() <= cases@.len()
            && ((forall|i: int| 0 <= i < cases@.len() ==> well_formed_case(#[trigger] cases@[i]))
                ==> k2@.len() == cases@.len() && forall|i: int| 0 <= i < cases@.len() ==> case_image(#[trigger] cases@[i], state, ctx, k2@[i])),
        NodeTy::Break => c == Core::Break,
        NodeTy::Continue => c == Core::Continue,
        _ => true,
    }
}

//@@ FN src/generate/convert/control_flow.rs | free | is_valid_ternary_arm
    ensures r == ternary_arm_ok(*arm, returned),                                 //# ternary_arm_is_an_expression_and_return_only_if_returned [C01]
//@@ END
//@@ FN src/generate/convert/control_flow.rs | free | is_valid_in_ternary
    ensures r == ternary_ok(*then, *el, returned),                               //# ternary_only_for_simple_arms [C01]
//@@ END

#[verifier::loop_isolation(false)]
//@@ FN src/generate/convert/control_flow.rs | free | convert_cntrl_flow
//@@ ITERNAME
//@@< for case in match_cases
//@@> for case in it: match_cases
//@@ LOOPINV
//@@< for case in match_cases
//@@> invariant cases@.len() <= it.index@, forall|m: Seq<char>, n: Seq<char>| imp_has_from(*old(imp), m, n) ==> imp_has_from(*imp, m, n), (forall|i: int| 0 <= i < it.index@ ==> well_formed_case(#[trigger] match_cases@[i])) ==> cases@.len() == it.index@ && forall|i: int| 0 <= i < it.index@ ==> case_image(#[trigger] match_cases@[i], *state, *ctx, cases@[i]),
    ensures
        r matches Ok(c) ==> cf_post(*ast, *state, *ctx, c),                      //# branches_converted_in_callers_state [C01]
        forall|m: Seq<char>, n: Seq<char>| imp_has_from(*old(imp), m, n) ==> imp_has_from(*final(imp), m, n),   //# imports_only_grow [C16]
//@@ END

// ---- calls and comprehensions (C01: receiver, callee and arguments keep their places; C03: no failing expect) ----------
pub open spec fn call_post(ast: ASTTy, state: State, ctx: Context, c: Core) -> bool {
    match ast.node {
        NodeTy::PropertyCall { instance, property } =>
            c matches Core::PropertyCall { object, property: p2 }
            && Some(*object) == conv(*instance, state, ctx) && Some(*p2) == conv(*property, state, ctx),
        NodeTy::FunctionCall { name, args } =>
            c matches Core::FunctionCall { function, args: a2 }
            && *function == sn_to_py(name) && Some(a2@) == convvec(args@, state, ctx),
        _ => true,
    }
}

//@@ FN src/generate/convert/call.rs | free | convert_call
    ensures
        r matches Ok(c) ==> call_post(*ast, *state, *ctx, c),                    //# call_keeps_receiver_callee_and_argument_order [C01]
        forall|m: Seq<char>, n: Seq<char>| imp_has_from(*old(imp), m, n) ==> imp_has_from(*final(imp), m, n),   //# imports_only_grow [C16]
//@@ END

/// outline of `conditions.strip_prefix(&[col.clone()])` where `col` is `conditions.first()`:
/// A-STD: stripping the slice's own first element always succeeds and leaves the tail
#[verifier::external_body]
pub fn verif_outline_strip_first<'a>(conditions: &'a Vec<ASTTy>, col: &ASTTy) -> (r: Option<&'a [ASTTy]>)
    requires conditions@.len() >= 1, *col == conditions@[0],
    ensures r matches Some(t) && t@ == conditions@.subrange(1, conditions@.len() as int),
{ unimplemented!() }

pub open spec fn compr_parts(conditions: Seq<ASTTy>, state: State, ctx: Context, col: Core, conds: Seq<Core>) -> bool {
    conditions.len() >= 1 && Some(col) == conv(conditions[0], state, ctx)
    && Some(conds) == convvec(conditions.subrange(1, conditions.len() as int), state, ctx)
}
pub open spec fn builder_post(ast: ASTTy, state: State, ctx: Context, c: Core) -> bool {
    match ast.node {
        NodeTy::DictBuilder { from, to, conditions } =>
            c matches Core::DictComprehension { from: f2, to: t2, col, conds }
            && Some(*f2) == conv(*from, state, ctx) && Some(*t2) == conv(*to, state, ctx)
            && compr_parts(conditions@, state, ctx, *col, conds@),
        NodeTy::ListBuilder { item, conditions } =>
            c matches Core::List { elements } && elements@.len() == 1
            && (elements@[0] matches Core::Comprehension { expr, col, conds }
                && Some(*expr) == conv(*item, state, ctx) && compr_parts(conditions@, state, ctx, *col, conds@)),
        NodeTy::SetBuilder { item, conditions } =>
            c matches Core::Set { elements } && elements@.len() == 1
            && (elements@[0] matches Core::Comprehension { expr, col, conds }
                && Some(*expr) == conv(*item, state, ctx) && compr_parts(conditions@, state, ctx, *col, conds@)),
        _ => true,
    }
}

//@@ FN src/generate/convert/builder.rs | free | convert_builder
//@@ OUTLINE count=3
//@@< conditions .strip_prefix(&[col.clone()])
//@@> verif_outline_strip_first(conditions, col)
    ensures
        r matches Ok(c) ==> builder_post(*ast, *state, *ctx, c),                 //# comprehension_keeps_item_generator_and_conditions [C01]
        forall|m: Seq<char>, n: Seq<char>| imp_has_from(*old(imp), m, n) ==> imp_has_from(*final(imp), m, n),   //# imports_only_grow [C16]
//@@ END

// ---- typing import for nullable types (C16: Optional is imported whenever it is emitted) --------------------------------
impl Name {
    #[verifier::external_body]
    pub fn from(name: &StringName) -> Name { unimplemented!() }
}
#[verifier::external_body]
pub fn core_type(lit: &str, generics: &[Name], imp: &mut Imports) -> (r: Core)
    ensures r matches Core::Type { lit: l, generics: g } && l@ == lit@, forall|m: Seq<char>, n: Seq<char>| imp_has_from(*old(imp), m, n) ==> imp_has_from(*final(imp), m, n),
{ unimplemented!() }

impl TrueName {
//@@ FN src/check/name/true_name/mod.rs | impl Nullable for TrueName | is_nullable
    ensures r == self.is_nullable,
//@@ END
//@@ FN src/generate/name.rs | impl ToPy for TrueName | to_py | as=true_name_to_py
    ensures
        // whenever the emitted type is `Optional[..]`, `from typing import Optional` is registered
        (r matches Core::Type { lit, generics } && lit@ == "Optional"@ && self.is_nullable) ==> imp_has_from(*final(imp), "typing"@, "Optional"@),   //# optional_import_registered [C16]
        self.is_nullable ==> (r matches Core::Type { lit, generics } && lit@ == "Optional"@),   //# nullable_type_is_emitted_as_optional [C16]
        forall|m: Seq<char>, n: Seq<char>| imp_has_from(*old(imp), m, n) ==> imp_has_from(*final(imp), m, n),   //# imports_only_grow [C16]
//@@ END
}

// ---- raise / handle (C01 "raise/handle"; C08 "the emitted Python catches the listed classes"; C11) -------------------------
/// outline of `var.as_deref()` on Option<Box<Core>>
#[verifier::external_body]
pub fn verif_outline_as_deref<'a>(v: &'a Option<Box<Core>>) -> (r: Option<&'a Core>)
    ensures v is None ==> r is None, v matches Some(b) ==> r == Some(&**b),
{ unimplemented!() }
/// the except clause emitted for one arm of a handle names the Python spelling of the class the arm declares (C08)
pub open spec fn arm_class_ok(case: ASTTy, ex: Core) -> bool {
    match case.node {
        NodeTy::Case { cond, body } => match cond.node {
            NodeTy::ExpressionType { expr, mutable, ty } => ty matches Some(t) && match ex {
                Core::Except { class, body: b2 } => *class == name_to_py(t),
                Core::ExceptId { id, class, body: b2 } => *class == name_to_py(t),
                _ => false,
            },
            _ => false,
        },
        _ => false,
    }
}
/// A-WF (precondition): every arm of a handle that reaches the generator declares a class (the checker rejects `err => ..`)
pub open spec fn arms_typed(ast: ASTTy) -> bool {
    match ast.node {
        NodeTy::Handle { expr_or_stmt, cases } => forall|k: int| 0 <= k < cases@.len() ==> (match (#[trigger] cases@[k]).node {
            NodeTy::Case { cond, body } => (match cond.node { NodeTy::ExpressionType { expr, mutable, ty } => ty is Some, _ => true }),
            _ => true,
        }),
        _ => true,
    }
}
pub open spec fn handle_target(e: ASTTy) -> Option<ASTTy> {
    match e.node { NodeTy::VariableDef { var, .. } => Some(*var), _ => None }
}

/// what convert_handle must return for a Handle node
pub open spec fn handle_post(ast: ASTTy, state: State, ctx: Context, c: Core) -> bool {
    match ast.node {
        NodeTy::Raise { error } => c matches Core::Raise { error: e2 } && Some(*e2) == conv(*error, state, ctx),
        NodeTy::Handle { expr_or_stmt, cases } =>
            c matches Core::TryExcept { setup, attempt, except }
            // the guarded expression is converted in the caller's state
            && Some(*attempt) == conv(*expr_or_stmt, state, ctx)
            // C01/C11: the target of `def v := e handle ..` is pre-declared before the try — whenever there is a
            // target, whatever the annotate flag says
            && (setup is Some) == (handle_target(*expr_or_stmt) is Some)
            && (setup matches Some(sd) ==> (*sd matches Core::VarDef { var, ty, expr } && expr is None
                    && Some(*var) == conv(handle_target(*expr_or_stmt)->Some_0, state, ctx)))
            && except@.len() == cases@.len()
            // C08: one except clause per arm, in order, each naming the class its arm declares
            && (forall|k: int| 0 <= k < cases@.len() ==> arm_class_ok(cases@[k], #[trigger] except@[k])),
        _ => true,
    }
}

#[verifier::loop_isolation(false)]
//@@ FN src/generate/convert/handle.rs | free | convert_handle | props=C01,C11,C08,C03
//@@ HAVOC
//@@< ty.as_ref().map(|ty| ty.to_py(imp)).map(Box::from)
//@@> verif_havoc::<Option<Box<Core>>>()
//@@ OUTLINE
//@@< var.as_deref()
//@@> verif_outline_as_deref(&var)
//@@ CLOSURE
//@@< var.map(|var| { Box::from(Core::VarDef { var, ty, expr: None, }) })
//@@> (match var { Some(var) => Some(Box::from(Core::VarDef { var, ty, expr: None, })), None => None })
//@@ REPLACE deep
//@@< ty.as_ref().map_or_else( || $$, |$aty| $$, )
//@@> (match ty.as_ref() { Some($aty) => $$2, None => $$1 })
//@@ ITERNAME
//@@< for $case in cases
//@@> for $case in it: cases
//@@ LOOPINV
//@@< for $case in cases
//@@> invariant except@.len() == it.index@, forall|m: Seq<char>, n: Seq<char>| imp_has_from(*old(imp), m, n) ==> imp_has_from(*imp, m, n), arms_typed(*ast),
//@@ INVCLAIM
//@@< for $case in cases
//@@> forall|k: int| 0 <= k < it.index@ ==> arm_class_ok(cases@[k], #[trigger] except@[k]), //# loop_every_except_clause_so_far_names_the_class_its_arm_declares [C08]
    requires arms_typed(*ast),                                                   //# handle_arms_declare_a_class [-]
    ensures
        r matches Ok(c) ==> handle_post(*ast, *state, *ctx, c),                  //# try_except_shape_with_predeclared_target_and_one_except_clause_per_arm_naming_its_class [C01,C11,C08]
        forall|m: Seq<char>, n: Seq<char>| imp_has_from(*old(imp), m, n) ==> imp_has_from(*final(imp), m, n),   //# imports_only_grow [C16]
//@@ END

// ---- classes (C17: a class / type definition is emitted from its declared name, parents and body; C16: NewType) -----------------
/// A-EXT: extract_class (class bodies are rebuilt through a HashMap and iterator chains: outside reach) is a function of its arguments
pub uninterp spec fn extracted(ty: StringName, body: Option<Box<ASTTy>>, args: Seq<ASTTy>, parents: Seq<Core>, state: State, ctx: Context) -> Option<Core>;
#[verifier::external_body]
pub fn extract_class(ty: &StringName, body: &Option<Box<ASTTy>>, args: &[ASTTy], parents: &[Core], imp: &mut Imports, state: &State, ctx: &Context) -> (r: GenResult)
    ensures match extracted(*ty, *body, args@, parents@, *state, *ctx) { Some(c) => r == Ok::<Core, Box<UnimplementedErr>>(c), None => r is Err },
        forall|m: Seq<char>, n: Seq<char>| imp_has_from(*old(imp), m, n) ==> imp_has_from(*final(imp), m, n),
{ unimplemented!() }
/// `X = NewType("X", <isa>)`
pub open spec fn newtype_assign(c: Core, ty: StringName, isa: Name) -> bool {
    c matches Core::Assign { left, right, op } && op == CoreOp::Assign
    && (*left matches Core::Id { lit } && lit@ == ty.name@)
    && (*right matches Core::FunctionCall { function, args } && (*function matches Core::Id { lit: f } && f@ == "NewType"@)
        && args@.len() == 2 && (args@[0] matches Core::Str { string } && string@ == ty.name@) && args@[1] == name_to_py(isa))
}
pub open spec fn class_post(ast: ASTTy, state: State, ctx: Context, r: GenResult) -> bool {
    match ast.node {
        // a type alias becomes a NewType named after the alias, over the Python spelling of the aliased type
        NodeTy::TypeAlias { ty, isa, conditions } => r matches Ok(c) && newtype_assign(c, ty, isa),
        // a type definition is an interface: extracted in interface state, with (at most) the one parent it declares, no arguments
        NodeTy::TypeDef { ty, isa, body } => {
            let parents = match isa { Some(n) => seq![name_to_py(n)], None => Seq::<Core>::empty() };
            match extracted(ty, body, Seq::<ASTTy>::empty(), parents, State { interface: true, ..state }, ctx) { Some(c) => r == Ok::<Core, Box<UnimplementedErr>>(c), None => r is Err }
        },
        // a class: extracted (not as an interface) from its declared name, body and arguments, with the conversion of its declared
        // parents, in order, in the caller's state
        NodeTy::Class { ty, args, parents, body } => match convvec(parents@, state, ctx) {
            Some(ps) => match extracted(ty, body, args@, ps, State { interface: false, ..state }, ctx) { Some(c) => r == Ok::<Core, Box<UnimplementedErr>>(c), None => r is Err },
            None => r is Err,
        },
        // a parent without arguments is named, one with arguments is called with their conversion
        NodeTy::Parent { ty, args } => if args@.len() == 0 { r == Ok::<Core, Box<UnimplementedErr>>(sn_to_py(ty)) } else {
            match convvec(args@, state, ctx) { Some(a) => r matches Ok(c) && (c matches Core::FunctionCall { function, args: a2 } && *function == sn_to_py(ty) && a2@ == a), None => r is Err }
        },
        _ => r is Err,
    }
}

//@@ FN src/generate/convert/class.rs | free | convert_class | props=C17,C16,C03
//@@ REPLACE deep
//@@< isa .as_ref() .map_or_else(Vec::new, |isa| $$)
//@@> (match isa.as_ref() { Some(isa) => $$1, None => Vec::new() })
//@@ REPLACE deep
//@@< extract_class(ty, body, &[], &parents, imp, $$, ctx)
//@@> { let verif_no_args: Vec<ASTTy> = Vec::new(); proof { assert(verif_no_args@ =~= Seq::<ASTTy>::empty()); assert(parents@ =~= (match *isa { Some(n) => seq![name_to_py(n)], None => Seq::<Core>::empty() })); } extract_class(ty, body, verif_no_args.as_slice(), parents.as_slice(), imp, $$1, ctx) }
//@@ REPLACE deep
//@@< extract_class( ty, body, args, &parents, imp, $$, ctx, )
//@@> extract_class( ty, body, args.as_slice(), parents.as_slice(), imp, $$1, ctx, )
//@@ REPLACE deep
//@@< NodeTy::Parent { ty, args } if args.is_empty() => $$, NodeTy::Parent { ty, args } => Ok($$),
//@@> NodeTy::Parent { ty, args } => if args.is_empty() { $$1 } else { Ok($$2) },
    ensures
        class_post(*ast, *state, *ctx, r),                                       //# classes_aliases_and_parents_are_emitted_from_what_is_declared [C17]
        (ast.node is TypeAlias && r is Ok) ==> imp_has_from(*final(imp), "typing"@, "NewType"@),   //# newtype_import_registered [C16]
        forall|m: Seq<char>, n: Seq<char>| imp_has_from(*old(imp), m, n) ==> imp_has_from(*final(imp), m, n),   //# imports_only_grow [C16]
//@@ END

} // verus!

fn main() {}
