//@@ UNIT UNIFY
// Unit UNIFY — src/check/constrain/constraint/iterator.rs::Constraints::{len, pop_constr, push_constr, reinsert},
// constraint/mod.rs::Constraint::flag, unify/link.rs::reinsert.  Bodies copied verbatim from /repo on every run.
// This is the termination kernel of unification that C03 names: a constraint can be re-queued at most once.
#![allow(unused_imports, dead_code, unused_variables, non_snake_case, unused_mut)]
use vstd::prelude::*;
use std::collections::VecDeque;
use vstd::std_specs::iter::IteratorSpec;

//@@ INCLUDE pos_types.inc.rs
//@@ TYPE src/check/constrain/constraint/mod.rs | struct | Constraint
//@@ TYPE src/check/constrain/constraint/expected.rs | struct | Expected | pubfields
//@@ TYPE src/check/constrain/constraint/iterator.rs | struct | Constraints | pubfields

//@@ TYPE src/check/constrain/constraint/expected.rs | enum | Expect
use crate::Expect::{Access, Expression, Function, Type};

// opaque stand-ins
#[derive(Clone, Debug, PartialEq, Eq, Hash)]
pub struct AST { _x: u8 }
#[derive(Clone, Debug, PartialEq, Eq, Hash)]
pub struct StringName { _x: u8 }
#[derive(Clone, Debug, PartialEq, Eq, Hash)]
pub struct Name { _x: u8 }
pub struct Context { _x: u8 }
#[derive(Clone)]
pub struct Finished { _x: u8 }
pub struct ClassUnion { _x: u8 }
pub struct TypeErr { _x: u8 }
#[derive(Clone, Debug, PartialEq, Eq, Hash)]
pub struct TrueName { _x: u8 }
//@@ TYPE src/check/context/arg/mod.rs | struct | FunctionArg
/// stand-in for itertools::EitherOrBoth
pub enum EitherOrBoth<A, B> { Both(A, B), Left(A), Right(B) }
pub type TypeResult<T> = Result<T, Vec<TypeErr>>;
pub type Unified<T = Finished> = Result<T, Vec<TypeErr>>;

verus! {

#[verifier::external_type_specification] pub struct ExPosition(Position);
#[verifier::external_type_specification] pub struct ExCaretPos(CaretPos);
#[verifier::external_type_specification] pub struct ExConstraint(Constraint);
#[verifier::external_type_specification] pub struct ExExpected(Expected);
#[verifier::external_type_specification] pub struct ExConstraints(Constraints);
#[verifier::external_type_specification] pub struct ExExpect(Expect);
#[verifier::external_type_specification] #[verifier::external_body] pub struct ExAST(AST);
#[verifier::external_type_specification] #[verifier::external_body] pub struct ExStringName(StringName);
#[verifier::external_type_specification] #[verifier::external_body] pub struct ExName(Name);
#[verifier::external_type_specification] #[verifier::external_body] pub struct ExContext(Context);
#[verifier::external_type_specification] #[verifier::external_body] pub struct ExFinished(Finished);
#[verifier::external_type_specification] #[verifier::external_body] pub struct ExClassUnion(ClassUnion);
#[verifier::external_type_specification] #[verifier::external_body] pub struct ExTypeErr(TypeErr);
#[verifier::external_type_specification] #[verifier::external_body] pub struct ExTrueName(TrueName);
#[verifier::external_type_specification] pub struct ExFunctionArg(FunctionArg);
#[verifier::external_type_specification] #[verifier::reject_recursive_types(A)] #[verifier::reject_recursive_types(B)]
pub struct ExEitherOrBoth<A, B>(EitherOrBoth<A, B>);

pub assume_specification[<Constraint as Clone>::clone](t: &Constraint) -> (r: Constraint) ensures r == *t;
#[verifier::external_body] pub fn verif_opaque_string() -> String { unimplemented!() }

impl TypeErr {
    #[verifier::external_body]
    pub fn new(position: Position, msg: &str) -> TypeErr { unimplemented!() }
}

pub open spec fn flagged(c: Constraint) -> Constraint { Constraint { is_flag: true, ..c } }

impl Constraint {
//@@ FN src/check/constrain/constraint/mod.rs | impl Constraint | flag
    ensures r == flagged(*self),                                                 //# flag_sets_only_the_flag [C03]
//@@ END
}

impl Constraints {
//@@ FN src/check/constrain/constraint/iterator.rs | impl Constraints | len
    ensures r == self.constraints@.len(),                                        //# len_is_queue_length [C03]
//@@ END
//@@ FN src/check/constrain/constraint/iterator.rs | impl Constraints | pop_constr
    ensures
        old(self).constraints@.len() == 0 ==> r is None && final(self).constraints@ == old(self).constraints@,
        old(self).constraints@.len() > 0 ==> r == Some(old(self).constraints@[0])
            && final(self).constraints@ == old(self).constraints@.subrange(1, old(self).constraints@.len() as int),   //# pop_takes_the_front [C03]
        final(self).pos == old(self).pos, final(self).msg == old(self).msg,
//@@ END
//@@ FN src/check/constrain/constraint/iterator.rs | impl Constraints | push_constr
    ensures final(self).constraints@ == old(self).constraints@.push(*constr),    //# push_appends_at_the_back [C03]
        final(self).pos == old(self).pos, final(self).msg == old(self).msg,
//@@ END
//@@ FN src/check/constrain/constraint/iterator.rs | impl Constraints | reinsert
    ensures
        // C03 "constraint re-insertion limited to once per constraint (termination of unification)"
        constraint.is_flag ==> r is Err && r->Err_0@.len() == 1 && final(self).constraints@ == old(self).constraints@,   //# flagged_constraint_is_refused_with_a_diagnostic [C03]
        !constraint.is_flag ==> r is Ok && final(self).constraints@ == old(self).constraints@.push(flagged(*constraint)),   //# unflagged_constraint_requeued_once_flagged [C03]
        final(self).pos == old(self).pos, final(self).msg == old(self).msg,
//@@ END
}

//@@ FN src/check/constrain/unify/link.rs | free | reinsert | as=link_reinsert
    requires constr.constraints@.len() <= total,                                 //# queue_not_longer_than_total [-]
    ensures
        constraint.is_flag ==> r is Err && final(constr).constraints@ == old(constr).constraints@,   //# flagged_constraint_is_refused [C03]
        !constraint.is_flag ==> r is Ok && final(constr).constraints@ == old(constr).constraints@.push(flagged(*constraint)),   //# unflagged_constraint_requeued_once_flagged [C03]
//@@ END

// ---- /repo functions with ASSUMED contracts in this unit (bodies pinned; Name::is_superset_of is PROVED in unit NAMESUP) ----------
//@@ ASSUME src/check/name/mod.rs | impl IsSuperSet<Name> for Name | is_superset_of
//@@ ASSUME src/check/constrain/unify/finished.rs | impl Finished | push_ty
//@@ ASSUME src/check/constrain/unify/function.rs | free | unify_function
// ---- unify_type (C06: a failed supertype test is never accepted; C19: every rejection has a diagnostic) -------------
pub uninterp spec fn name_is_temporary(n: Name) -> bool;
pub uninterp spec fn name_contains_temp(n: Name) -> bool;
/// Name::is_superset_of: Some(b) = Ok(b), None = Err
pub uninterp spec fn name_sup(sup: Name, sub: Name, ctx: Context) -> Option<bool>;
pub uninterp spec fn name_any() -> Name;

pub assume_specification[<Name as PartialEq>::eq](a: &Name, b: &Name) -> (r: bool) ensures r == (*a == *b);
/// A-ARITH: `total + 1` where total counts constraints ever queued: cannot reach 2^64 (each constraint occupies memory)
#[verifier::external_body]
pub fn verif_assumed_succ(total: usize) -> (r: usize) ensures r == total + 1 { unimplemented!() }
/// A-REINSERT: the call of link::reinsert from unify_link's default arm.  reinsert itself is verified above under the
/// precondition `queue length <= total` (its trace line computes `total - constr.len()` unguarded); whether that
/// holds at this call site is NOT established (no witness program reaches the arm with a longer queue either).
#[verifier::external_body]
pub fn verif_assumed_reinsert(constr: &mut Constraints, constraint: &Constraint, total: usize) -> (r: Unified<()>)
    ensures r is Err ==> r->Err_0@.len() >= 1,
{ unimplemented!() }
/// outline of `left == right` on `&Expect` operands in a match guard (derived PartialEq structural, A-DERIVE)
#[verifier::external_body]
pub fn verif_outline_expect_eq(a: &Expect, b: &Expect) -> (r: bool) ensures r == (*a == *b) { unimplemented!() }
/// outline of `x == &Name::any()` (reference-to-reference `==`; derived PartialEq of Name is structural, A-DERIVE)
#[verifier::external_body]
pub fn verif_outline_name_eq(a: &Name, b: &Name) -> (r: bool) ensures r == (*a == *b) { unimplemented!() }

impl Name {
    #[verifier::external_body] pub fn is_temporary(&self) -> (r: bool) ensures r == name_is_temporary(*self) { unimplemented!() }
    #[verifier::external_body] pub fn contains_temp(&self) -> (r: bool) ensures r == name_contains_temp(*self) { unimplemented!() }
    #[verifier::external_body] pub fn any() -> (r: Name) ensures r == name_any() { unimplemented!() }
    #[verifier::external_body]
    pub fn is_superset_of(&self, other: &Name, ctx: &Context, pos: Position) -> (r: TypeResult<bool>)
        ensures match name_sup(*self, *other, *ctx) { Some(b) => r == Ok::<bool, Vec<TypeErr>>(b), None => r is Err && r->Err_0@.len() >= 1 },
    { unimplemented!() }
}
impl Context {
    /// A-EXT: an unknown class is reported with at least one diagnostic
    #[verifier::external_body]
    pub fn class(&self, class: &Name, pos: Position) -> (r: TypeResult<ClassUnion>)
        ensures r is Err ==> r->Err_0@.len() >= 1,
    { unimplemented!() }
}
impl TypeErr {
    #[verifier::external_body] pub fn with_cause(self, msg: &str, pos: Position) -> TypeErr { unimplemented!() }
}
impl Finished {
    #[verifier::external_body]
    pub fn push_ty(&mut self, ctx: &Context, pos: Position, expected: &Expected, name: &Name) -> (r: TypeResult<()>)
        ensures r is Err ==> r->Err_0@.len() >= 1,
    { unimplemented!() }
}
pub assume_specification[<Finished as Clone>::clone](t: &Finished) -> (r: Finished) ensures r == *t;
pub assume_specification[<Expect as PartialEq>::eq](a: &Expect, b: &Expect) -> (r: bool) ensures r == (*a == *b);
#[verifier::external_body]
pub fn unify_function(constraint: &Constraint, constraints: &mut Constraints, finished: &mut Finished, ctx: &Context, total: usize) -> (r: Unified<Finished>)
    ensures r is Err ==> r->Err_0@.len() >= 1,
{ unimplemented!() }
#[verifier::external_body]
pub fn sub(constraints: &mut Constraints, new: &Expected, old: &Expected, offset: usize, total: usize) -> (r: Unified<()>)
    ensures r is Err ==> r->Err_0@.len() >= 1,
{ unimplemented!() }
#[verifier::external_body]
pub fn sub_ty(new_pos: Position, new: &Name, old_pos: Position, old: &Name, constr: &mut Constraints, offset: usize, total: usize) -> (r: Unified<()>)
    ensures r is Err ==> r->Err_0@.len() >= 1,
{ unimplemented!() }
/// stands for the two havocked `for (old, new) in X.temp_map(..)? { sub_ty(..)?; }` loops (HashMap iteration)
#[verifier::external_body]
pub fn verif_havoc_subst(constr: &mut Constraints) -> (r: Unified<()>)
    ensures r is Err ==> r->Err_0@.len() >= 1,
{ unimplemented!() }

pub open spec fn accept_justified(c: Constraint, ctx: Context) -> bool {
    match (c.parent.expect, c.child.expect) {
        (Expect::Type { name: l }, Expect::Type { name: rr }) =>
            (!name_is_temporary(l) && !name_is_temporary(rr) && !name_contains_temp(l) && !name_contains_temp(rr))
            ==> (name_sup(l, rr, ctx) == Some(true) || (name_sup(l, rr, ctx) == Some(false) && (l == name_any() || rr == name_any()))),
        _ => false,   // anything that is not Type-vs-Type is rejected by unify_type
    }
}

//@@ FN src/check/constrain/unify/ty.rs | free | unify_type_message
    ensures r@.len() == 1,                                                       //# mismatch_message_is_one_diagnostic [C19,C06]
//@@ END

#[verifier::exec_allows_no_decreases_clause]
//@@ FN src/check/constrain/unify/ty.rs | free | unify_type | props=C06,C03
//@@ OUTLINE
//@@< l_ty == &Name::any()
//@@> verif_outline_name_eq(l_ty, &Name::any())
//@@ OUTLINE
//@@< r_ty == &Name::any()
//@@> verif_outline_name_eq(r_ty, &Name::any())
//@@ HAVOC
//@@< for (old, new) in l_ty.temp_map(r_ty, left.pos)? { sub_ty(left.pos, &new, right.pos, &old, constr, count, total)?; }
//@@> verif_havoc_subst(constr)?;
//@@ HAVOC
//@@< for (old, new) in r_ty.temp_map(l_ty, left.pos)? { sub_ty(left.pos, &new, right.pos, &old, constr, count, total)?; }
//@@> verif_havoc_subst(constr)?;
    ensures
        // C06/C20: a Type-vs-Type constraint without temporaries is accepted only if the supertype test holds
        // (or one side is Any); a failed or erroneous test never yields Ok
        r is Ok ==> accept_justified(*constraint, *ctx),                          //# accepted_only_if_supertype_or_any [C06,C20,C05]
        // C19 "every rejection carries at least one diagnostic"
        r is Err ==> r->Err_0@.len() >= 1,                                       //# rejection_carries_a_diagnostic [C19,C06]
//@@ END

// unify_link: the dispatcher of unification.  Termination is NOT proved (the recursion is on the queue contents
// through callees outside reach): #[verifier::exec_allows_no_decreases_clause]; stated as an assumption.
/// C05 / C06 "given the unifier processes every logged constraint": the constraint at the FRONT of the queue is not skipped — if
/// it is a (not trivially equal) Type-vs-Type constraint, the whole unification can only succeed if unify_type accepted it,
/// i.e. (unify_type's contract) if its supertype test holds or a side is Any
pub open spec fn front_decided(q: Constraints, ctx: Context, r: Unified<Finished>) -> bool {
    q.constraints@.len() >= 1 ==> {
        let c = q.constraints@[0];
        match (c.parent.expect, c.child.expect) {
            (Expect::Type { name: l }, Expect::Type { name: rr }) => c.parent.expect != c.child.expect ==> (r is Ok ==> accept_justified(c, ctx)),
            _ => true,
        }
    }
}

#[verifier::exec_allows_no_decreases_clause]
//@@ FN src/check/constrain/unify/link.rs | free | unify_link | props=C19,C03,C05,C06
//@@ OUTLINE
//@@< unify_link(constraints, finished, ctx, total + 1)
//@@> unify_link(constraints, finished, ctx, verif_assumed_succ(total))
//@@ OUTLINE
//@@< reinsert(constraints, constraint, total)?
//@@> verif_assumed_reinsert(constraints, constraint, total)?
//@@ OUTLINE
//@@< (left, right) if left == right =>
//@@> (left, right) if verif_outline_expect_eq(left, right) =>
    ensures
        r is Err ==> r->Err_0@.len() >= 1,                                       //# rejection_carries_a_diagnostic [C19]
        front_decided(*old(constraints), *ctx, r),                               //# the_front_constraint_is_decided_not_skipped [C05,C06,C20]
        old(constraints).constraints@.len() == 0 ==> r == Ok::<Finished, Vec<TypeErr>>(*old(finished)), //# an_empty_queue_finishes_with_what_was_found [C05]
//@@ END

/// C03: along any sequence of re-insertions of one constraint, at most one succeeds — the second attempt sees
/// the flag set by the first and is refused, so every constraint enters the queue at most twice.
pub proof fn lemma_reinsert_at_most_once(c: Constraint)
    ensures flagged(c).is_flag, flagged(flagged(c)) == flagged(c),
{}


// ---- unify_fun_arg (C05: method arguments — the right number, allowing defaults; each argument bounded by its parameter) ----
pub const SELF: &'static str = "self";
pub const STR: &'static str = "Str";
pub assume_specification[<Expected as Clone>::clone](t: &Expected) -> (r: Expected) ensures r == *t;
pub assume_specification[<TrueName as Clone>::clone](t: &TrueName) -> (r: TrueName) ensures r == *t;
impl Expected {
    #[verifier::external_body]
    pub fn new(pos: Position, expect: &Expect) -> (r: Expected) ensures r.pos == pos, r.expect == *expect { unimplemented!() }
}
impl Name {
    #[verifier::external_body] pub fn is_interchangeable(&self, b: bool) -> Name { unimplemented!() }
    #[verifier::external_body]
    pub fn as_name(&self, entity: &TrueName, pos: Position) -> (r: TypeResult<Name>) ensures r is Err ==> r->Err_0@.len() >= 1 { unimplemented!() }
}
impl TrueName {
    #[verifier::external_body] pub fn as_mutable(&self) -> TrueName { unimplemented!() }
}
/// OUTLINED `ctx_f_arg.name == SELF` (String against &str)
#[verifier::external_body]
pub fn verif_string_is(a: &String, b: &str) -> (r: bool) ensures r == (a@ == b@) { unimplemented!() }
#[verifier::external_body]
pub fn comma_delm(args: &[Expected]) -> String { unimplemented!() }
/// A-EXT (itertools): `a.iter().zip_longest(b.iter())` yields Both for the common prefix, then Left / Right for the rest
pub open spec fn zl_elem<'a>(a: Seq<FunctionArg>, b: Seq<Expected>, i: int) -> EitherOrBoth<&'a FunctionArg, &'a Expected> {
    if i < a.len() && i < b.len() { EitherOrBoth::Both(&a[i], &b[i]) } else if i < a.len() { EitherOrBoth::Left(&a[i]) } else { EitherOrBoth::Right(&b[i]) }
}
pub open spec fn zl_seq<'a>(a: Seq<FunctionArg>, b: Seq<Expected>) -> Seq<EitherOrBoth<&'a FunctionArg, &'a Expected>> {
    Seq::new(if a.len() >= b.len() { a.len() } else { b.len() }, |i: int| zl_elem(a, b, i))
}
#[verifier::external_body]
pub fn verif_zip_longest<'a>(a: &'a [FunctionArg], b: &'a [Expected]) -> (r: Vec<EitherOrBoth<&'a FunctionArg, &'a Expected>>)
    ensures r@ == zl_seq(a@, b@), a@.len() <= usize::MAX, b@.len() <= usize::MAX /* slice lengths are usize */,
{ unimplemented!() }
/// HAVOCKED: the tail of the Both arm — `if let Ok(Ok(tuple_union)) = expected.ty().map(|name| name.elements(..)) { .. } else
/// { constr.push(&msg, &ctx_arg_ty, &expected) }`: pushes `parameter type >= argument` (or, for a tuple passed to Str, one
/// stringy constraint per element); the queue only grows
#[verifier::external_body]
pub fn verif_havoc_push_argument(constr: &mut Constraints, ctx_arg_ty: &Expected, expected: &Expected, name: &StringName)
    ensures old(constr).constraints@.len() <= final(constr).constraints@.len(),
        forall|i: int| 0 <= i < old(constr).constraints@.len() ==> final(constr).constraints@[i] == old(constr).constraints@[i],
{ unimplemented!() }

pub open spec fn fun_arg_post(formals: Seq<FunctionArg>, n_args: int, added: usize) -> bool {
    // no argument too many; every argument meets a typed parameter; every parameter left over has a default
    &&& n_args <= formals.len()
    &&& added == n_args
    &&& forall|i: int| 0 <= i < n_args ==> (#[trigger] formals[i]).ty is Some
    &&& forall|i: int| n_args <= i < formals.len() ==> (#[trigger] formals[i]).has_default
}

//@@ FN src/check/constrain/unify/function.rs | free | unify_fun_arg | props=C05,C03
//@@ REPLACE
//@@< ctx_f_args.iter().zip_longest(args.iter())
//@@> verif_zip_longest(ctx_f_args, args)
//@@ REPLACE
//@@< ctx_f_arg.name == SELF
//@@> verif_string_is(&ctx_f_arg.name, SELF)
//@@ REPLACE pin=75f502ed2a83
//@@< if let Ok(Ok($tu)) = expected.ty().map($$) { $$ } else { $$ }
//@@> verif_havoc_push_argument(constr, &ctx_arg_ty, &expected, name);
//@@ REPLACE
//@@< EitherOrBoth::Left($fa) if $$ =>
//@@> EitherOrBoth::Left($fa) => if $$1 /* guard folded into the arm (the only later arm that matches Left is `_ => {}`) */
//@@ HINT before
//@@< for either_or_both in
//@@> let ghost mut n_done: int = 0;
//@@ ITERNAME
//@@< for either_or_both in
//@@> for either_or_both in zit:
//@@ LOOPINV
//@@< for either_or_both in $$.zip_longest($$)
//@@> invariant zit.history@ + zit.iter.remaining() == zl_seq(ctx_f_args@, args@), zit.history@.len() == zit.index@, zit.index@ <= zl_seq(ctx_f_args@, args@).len(), n_done == zit.index@, added <= zit.index@, ctx_f_args@.len() <= usize::MAX, args@.len() <= usize::MAX,
//@@ INVCLAIM
//@@< for either_or_both in $$.zip_longest($$)
//@@> forall|i: int| 0 <= i < zit.index@ ==> i < ctx_f_args@.len() && (i < args@.len() ==> (#[trigger] ctx_f_args@[i]).ty is Some) && (i >= args@.len() ==> ctx_f_args@[i].has_default), //# loop_every_position_so_far_has_a_typed_parameter_or_a_default [C05]
//@@ INVCLAIM
//@@< for either_or_both in $$.zip_longest($$)
//@@> added == (if zit.index@ <= args@.len() { zit.index@ } else { args@.len() as int }), //# loop_added_counts_the_arguments_matched [C05]
//@@ HINT before
//@@< match either_or_both {
//@@> let ghost k = zit.index@; assert(either_or_both == zl_seq(ctx_f_args@, args@)[k]); assert(either_or_both == zl_elem(ctx_f_args@, args@, k)); proof { n_done = k + 1; }
//@@ HINT before
//@@< Ok(added)
//@@> proof { assert(n_done == zl_seq(ctx_f_args@, args@).len()); if args@.len() > ctx_f_args@.len() { let j = ctx_f_args@.len() as int; assert(j < n_done); let _ = ctx_f_args@[j]; } }
    ensures
        r matches Ok(n) ==> fun_arg_post(ctx_f_args@, args@.len() as int, n),     //# method_call_has_the_right_number_of_arguments [C05]
        r is Err ==> r->Err_0@.len() >= 1,                                       //# rejection_carries_a_diagnostic [C19]
//@@ END

} // verus!

fn main() {}
