pub struct Imports { _x: u8 }
