//@@ UNIT GENOP
//@@ RLIMIT 30
// Unit GENOP — src/check/constrain/generate/operation.rs: operators and literals of the constraint generator (C05, C06).
//   gen_op         every operator / literal node records the constraint its typing rule needs, for EVERY program:
//                  a binary arithmetic / comparison operator is typed as the result of the operator METHOD of its LEFT
//                  operand applied to both operands (`in`: of its right operand), so a nullable or mistyped operand is a
//                  failing method look-up during unification; literals are typed Int / Float / Str / Range / Slice;
//                  not / and / or / is / isnt are typed Bool; unary minus is the operand's `__neg__`; unary plus the operand
//                  itself (regression guards for the repaired defect 18); sqrt is Float; the operands are always checked.
//   gen_magic, access, gen_primitive, gen_range, bin_op   the helpers, each with the contract gen_op's proof uses
// Shares the model of unit GENFLOW.  The bitwise operators (open finding KF-C05-bitwise-results) carry only the
// clauses the code satisfies: operands checked, shift amount Int.
#![allow(unused_imports, dead_code, unused_variables, non_snake_case, unused_mut)]
#![feature(allocator_api)]
use vstd::prelude::*;
use std::convert::TryFrom;
use std::marker::PhantomData;
use std::ops::Deref;
use vstd::std_specs::iter::IteratorSpec;

//@@ INCLUDE gen_types.inc.rs
pub struct Class { _x: u8 }

verus! {

//@@ INCLUDE gen_model.inc.rs

#[verifier::external_type_specification] #[verifier::external_body] pub struct ExClass(Class);
pub assume_specification<T>[<Box<T> as From<T>>::from](t: T) -> (r: Box<T>) ensures *r == t;

//@@ ASSUME src/check/name/string_name/mod.rs | impl From<&str> for StringName | from
//@@ ASSUME src/check/name/mod.rs | impl From<&str> for Name | from
//@@ ASSUME src/check/context/clss/mod.rs | impl LookupClass<&TrueName, Class> for Context | class
// ---- constants (verbatim) ------------------------------------------------------------------------------------------------------
//@@ CONST src/check/context/clss/mod.rs | INT
//@@ CONST src/check/context/clss/mod.rs | FLOAT
//@@ CONST src/check/context/clss/mod.rs | STRING
//@@ CONST src/check/context/clss/mod.rs | BOOL
//@@ CONST src/check/context/clss/mod.rs | RANGE
//@@ CONST src/check/context/clss/mod.rs | SLICE
//@@ CONST src/check/context/function/python.rs | ADD
//@@ CONST src/check/context/function/python.rs | DIV
//@@ CONST src/check/context/function/python.rs | EQ
//@@ CONST src/check/context/function/python.rs | NEQ
//@@ CONST src/check/context/function/python.rs | FDIV
//@@ CONST src/check/context/function/python.rs | GE
//@@ CONST src/check/context/function/python.rs | GEQ
//@@ CONST src/check/context/function/python.rs | LE
//@@ CONST src/check/context/function/python.rs | LEQ
//@@ CONST src/check/context/function/python.rs | MOD
//@@ CONST src/check/context/function/python.rs | MUL
//@@ CONST src/check/context/function/python.rs | NEG
//@@ CONST src/check/context/function/python.rs | POW
//@@ CONST src/check/context/function/python.rs | SUB
//@@ CONST src/check/context/function/python.rs | CONTAINS
//@@ CONST src/check/context/function/mod.rs | SQRT

// ---- externals ------------------------------------------------------------------------------------------------------------------
/// the names a text denotes (StringName::from(&str) / Name::from(&str): functions of the text)
pub uninterp spec fn sn_str(s: Seq<char>) -> StringName;
pub uninterp spec fn nm_str(s: Seq<char>) -> Name;
impl StringName {
    #[verifier::external_body]
    pub fn from(s: &str) -> (r: StringName) ensures r == sn_str(s@) { unimplemented!() }
}
impl Name {
    #[verifier::external_body]
    pub fn from(s: &str) -> (r: Name) ensures r == nm_str(s@) { unimplemented!() }
}
impl TrueName {
    #[verifier::external_body]
    pub fn try_from(a: &Box<AST>) -> (r: TypeResult<TrueName>) ensures r is Err ==> r->Err_0@.len() >= 1 { unimplemented!() }
}
impl Context {
    #[verifier::external_body]
    pub fn class(&self, ty: &TrueName, pos: Position) -> (r: TypeResult<Class>) ensures r is Err ==> r->Err_0@.len() >= 1 { unimplemented!() }
}
impl Environment {
    /// unit GENFLOW verifies this contract on the real body; here it is assumed (assume-guarantee)
    #[verifier::external_body]
    pub fn is_def_mode(&self, is_def_mode: bool) -> (r: Environment) ensures r == (Environment { is_def_mode: is_def_mode, ..*self }) { unimplemented!() }
}
impl Constraint {
    #[verifier::external_body]
    pub fn stringy(msg: &str, expected: &Expected) -> Constraint { unimplemented!() }
}
/// unit GENFLOW proves the chain contract of gen_vec; here its consequence: every element was checked, and without
/// carrying the environment the caller's environment comes back
#[verifier::external_body]
pub fn gen_vec(asts: &[AST], env: &Environment, carry_env: bool, ctx: &Context, constr: &mut ConstrBuilder) -> (r: Constrained)
    ensures mono(*old(constr), *final(constr)), grows(*old(constr), *final(constr)),
        r is Ok ==> forall|i: int| 0 <= i < asts@.len() ==> exists|e: Environment| seen(*final(constr), #[trigger] asts@[i], e),
        (r is Ok && !carry_env) ==> r == Ok::<Environment, Vec<TypeErr>>(*env) && forall|i: int| 0 <= i < asts@.len() ==> seen(*final(constr), #[trigger] asts@[i], *env),
        r is Err ==> r->Err_0@.len() >= 1,
{ unimplemented!() }

// ---- specification (from the property text: "operand or receiver of an operator or method of T") ----------------------------
/// `x` is the expectation "the result of calling method `fun` of `recv` with arguments (recv, arg)", positioned at recv
pub open spec fn is_method_result(x: Expected, fun: Seq<char>, recv: AST, args: Seq<AST>) -> bool {
    x.pos == recv.pos && x.an_or_a && match x.expect {
        Expect::Access { entity, name } => *entity == exp_of(recv) && name.pos == recv.pos && name.an_or_a && match name.expect {
            Expect::Function { name: f, args: a } => f == sn_str(fun) && a@.len() == args.len() && forall|i: int| 0 <= i < args.len() ==> a@[i] == exp_of(#[trigger] args[i]),
            _ => false,
        },
        _ => false,
    }
}
/// the node is typed as the result of that method: the constraint `node >= recv.fun(recv, arg..)` is on record
pub open spec fn typed_by_method(b: ConstrBuilder, node: AST, fun: Seq<char>, recv: AST, args: Seq<AST>) -> bool {
    exists|x: Expected| is_method_result(x, fun, recv, args) && has(b, exp_of(node), x)
}
/// the node is typed as the class called `ty`
pub open spec fn typed_as(b: ConstrBuilder, node: AST, ty: Seq<char>) -> bool {
    has(b, exp_of(node), type_exp(node.pos, nm_str(ty)))
}
/// an expression must be of the class called `ty` (the expectation is positioned at `at`)
pub open spec fn must_be(b: ConstrBuilder, e: AST, ty: Seq<char>, at: Position) -> bool {
    has(b, exp_of(e), type_exp(at, nm_str(ty)))
}
/// the operator method a binary operator node stands for, with receiver and argument (property: "operators")
pub open spec fn binary_rule(n: Node) -> Option<(Seq<char>, AST, AST)> {
    match n {
        Node::Add { left, right } => Some(("__add__"@, *left, *right)),
        Node::Sub { left, right } => Some(("__sub__"@, *left, *right)),
        Node::Mul { left, right } => Some(("__mul__"@, *left, *right)),
        Node::Div { left, right } => Some(("__truediv__"@, *left, *right)),
        Node::FDiv { left, right } => Some(("__floordiv__"@, *left, *right)),
        Node::Pow { left, right } => Some(("__pow__"@, *left, *right)),
        Node::Mod { left, right } => Some(("__mod__"@, *left, *right)),
        Node::Le { left, right } => Some(("__lt__"@, *left, *right)),
        Node::Ge { left, right } => Some(("__gt__"@, *left, *right)),
        Node::Leq { left, right } => Some(("__le__"@, *left, *right)),
        Node::Geq { left, right } => Some(("__ge__"@, *left, *right)),
        Node::Eq { left, right } => Some(("__eq__"@, *left, *right)),
        Node::Neq { left, right } => Some(("__ne__"@, *left, *right)),
        // `a in b` asks the COLLECTION b whether it contains a
        Node::In { left, right } => Some(("__contains__"@, *right, *left)),
        _ => None,
    }
}
/// the class a literal node has
pub open spec fn literal_rule(n: Node) -> Option<Seq<char>> {
    match n {
        Node::Int { .. } => Some("Int"@),
        Node::ENum { .. } => Some("Int"@),
        Node::Real { .. } => Some("Float"@),
        Node::Str { .. } => Some("Str"@),
        Node::Range { .. } => Some("Range"@),
        Node::Slice { .. } => Some("Slice"@),
        _ => None,
    }
}
/// the operators whose result is a Bool whatever the operands
pub open spec fn boolean_rule(n: Node) -> Option<Seq<AST>> {
    match n {
        Node::Not { expr } => Some(seq![*expr]),
        Node::And { left, right } => Some(seq![*left, *right]),
        Node::Or { left, right } => Some(seq![*left, *right]),
        Node::Is { left, right } => Some(seq![*left, *right]),
        Node::IsN { left, right } => Some(seq![*left, *right]),
        _ => None,
    }
}
/// operands that are checked in the caller's environment
pub open spec fn operands(n: Node) -> Seq<AST> {
    match n {
        Node::AddU { expr } => seq![*expr],
        Node::SubU { expr } => seq![*expr],
        Node::Sqrt { expr } => seq![*expr],
        Node::BOneCmpl { expr } => seq![*expr],
        Node::BAnd { left, right } => seq![*left, *right],
        Node::BOr { left, right } => seq![*left, *right],
        Node::BXOr { left, right } => seq![*left, *right],
        Node::BLShift { left, right } => seq![*left, *right],
        Node::BRShift { left, right } => seq![*left, *right],
        Node::IsA { left, .. } => seq![*left],
        Node::IsNA { left, .. } => seq![*left],
        _ => match boolean_rule(n) { Some(s) => s, None => match binary_rule(n) { Some((_, l, r)) => seq![l, r], None => seq![] } },
    }
}
/// the expressions interpolated into a string literal
pub open spec fn interpolated(n: Node) -> Seq<AST> {
    match n { Node::Str { expressions, .. } => expressions@, _ => seq![] }
}
/// `isa` / `isnta` name a class by an identifier
pub open spec fn isa_names_identifier(n: Node) -> bool {
    match n {
        Node::IsA { right, .. } => right.node is Id,
        Node::IsNA { right, .. } => right.node is Id,
        _ => true,
    }
}
/// from / to / step of a range or slice
pub open spec fn bounds_of(n: Node) -> Option<(AST, AST, Option<AST>)> {
    match n {
        Node::Range { from, to, step, .. } => Some((*from, *to, match step { Some(s) => Some(*s), None => None })),
        Node::Slice { from, to, step, .. } => Some((*from, *to, match step { Some(s) => Some(*s), None => None })),
        _ => None,
    }
}
pub open spec fn bounds_are_int(b: ConstrBuilder, n: Node, env: Environment) -> bool {
    match bounds_of(n) {
        Some((from, to, step)) => must_be(b, from, "Int"@, from.pos) && must_be(b, to, "Int"@, from.pos)
            && seen(b, from, env) && seen(b, to, env)
            && (step matches Some(s) ==> must_be(b, s, "Int"@, from.pos) && seen(b, s, env)),
        None => true,
    }
}

// ---- the helpers ---------------------------------------------------------------------------------------------------------------
//@@ FN src/check/constrain/generate/operation.rs | free | access | props=C05,C06
    ensures is_method_result(r, fun@, *left, seq![*left, *right]),                 //# expectation_is_the_operator_method_of_the_left_operand_on_both_operands [C05,C06]
//@@ END

//@@ FN src/check/constrain/generate/operation.rs | free | gen_primitive | props=C05,C06,C03
    ensures
        r == Ok::<Environment, Vec<TypeErr>>(*env),                                //# literal_changes_no_environment [C09]
        visits(*final(constr)) == visits(*old(constr)), mono(*old(constr), *final(constr)), grows(*old(constr), *final(constr)), //# nothing_is_forgotten [C05]
        typed_as(*final(constr), *ast, ty@),                                       //# literal_is_typed_as_its_class [C05,C06]
//@@ END

//@@ FN src/check/constrain/generate/operation.rs | free | gen_magic | props=C05,C06,C03
    ensures
        mono(*old(constr), *final(constr)), grows(*old(constr), *final(constr)),   //# nothing_is_forgotten [C05]
        r is Ok ==> typed_by_method(*final(constr), *ast, fun@, *left, seq![*left, *right]), //# operator_is_typed_as_the_method_of_its_left_operand [C05,C06]
        r is Ok ==> (exists|e: Environment| seen(*final(constr), *left, e)) && (exists|e: Environment| seen(*final(constr), *right, e)), //# both_operands_are_checked [C05,C06]
        (r is Ok && !env.is_def_mode) ==> r == Ok::<Environment, Vec<TypeErr>>(*env) && seen(*final(constr), *left, *env) && seen(*final(constr), *right, *env), //# operands_checked_in_the_callers_environment [C09]
        r is Err ==> r->Err_0@.len() >= 1,                                         //# rejection_carries_a_diagnostic [-]
//@@ END

//@@ FN src/check/constrain/generate/operation.rs | free | bin_op | props=C05,C06,C03
    ensures
        mono(*old(constr), *final(constr)), grows(*old(constr), *final(constr)),   //# nothing_is_forgotten [C05]
        r is Ok ==> r == Ok::<Environment, Vec<TypeErr>>(*env) && seen(*final(constr), *left, *env) && seen(*final(constr), *right, *env), //# both_operands_are_checked_in_the_callers_environment [C05,C06,C09]
        r is Err ==> r->Err_0@.len() >= 1,                                         //# rejection_carries_a_diagnostic [-]
//@@ END

//@@ FN src/check/constrain/generate/operation.rs | free | gen_range | props=C05,C06,C03
//@@ REPLACE deep
//@@< match &ast.node { Node::Range { from, to, step, .. } if $$ => (from, to, step), Node::Slice { from, to, step, .. } if $$ => (from, to, step), _ => { $$ } };
//@@> match &ast.node { Node::Range { from, to, step, .. } => if $$1 { (from, to, step) } else { $$3 }, Node::Slice { from, to, step, .. } => if $$2 { (from, to, step) } else { $$3 }, _ => { $$3 } }; /* guards folded into their arms, the fall-through arm's body repeated (a Range that fails its guard matches only `_`): Verus loses final(constr) in a match with guards */
    ensures
        mono(*old(constr), *final(constr)), grows(*old(constr), *final(constr)),   //# nothing_is_forgotten [C05]
        r is Ok ==> r == Ok::<Environment, Vec<TypeErr>>(*env) && bounds_of(ast.node) is Some && bounds_are_int(*final(constr), ast.node, *env), //# bounds_and_step_must_be_int_and_are_checked [C05,C06]
        r is Err ==> r->Err_0@.len() >= 1,                                         //# rejection_carries_a_diagnostic [-]
//@@ END

// ---- gen_op ----------------------------------------------------------------------------------------------------------------------
//@@ FN src/check/constrain/generate/operation.rs | free | gen_op | props=C05,C06,C03
//@@ ITERNAME
//@@< for expr in expressions
//@@> for expr in xit: expressions
//@@ LOOPINV
//@@< for expr in expressions
//@@> invariant mono(*old(constr), *constr), grows(*old(constr), *constr),
//@@ INVCLAIM
//@@< for expr in expressions
//@@> forall|i: int| 0 <= i < expressions@.len() ==> seen(*constr, #[trigger] expressions@[i], *env), //# loop_interpolated_expressions_were_checked_before_their_stringy_constraints [C05,C06,C09]
    ensures
        mono(*old(constr), *final(constr)), grows(*old(constr), *final(constr)),   //# nothing_is_forgotten [C05]
        (r is Ok && binary_rule(ast.node) is Some) ==> typed_by_method(*final(constr), *ast, binary_rule(ast.node)->Some_0.0, binary_rule(ast.node)->Some_0.1, seq![binary_rule(ast.node)->Some_0.1, binary_rule(ast.node)->Some_0.2]), //# binary_operator_is_typed_as_the_operator_method_of_its_receiver [C05,C06]
        (r is Ok && binary_rule(ast.node) is Some) ==> (exists|e: Environment| seen(*final(constr), binary_rule(ast.node)->Some_0.1, e)) && (exists|e: Environment| seen(*final(constr), binary_rule(ast.node)->Some_0.2, e)), //# binary_operator_checks_both_operands [C05,C06]
        (r is Ok && literal_rule(ast.node) is Some) ==> typed_as(*final(constr), *ast, literal_rule(ast.node)->Some_0), //# literal_is_typed_as_its_class [C05,C06]
        r is Ok ==> bounds_are_int(*final(constr), ast.node, *env),                //# range_and_slice_bounds_must_be_int [C05,C06]
        r is Ok ==> forall|i: int| 0 <= i < interpolated(ast.node).len() ==> seen(*final(constr), #[trigger] interpolated(ast.node)[i], *env), //# every_interpolated_expression_of_a_string_is_checked [C05,C06,C09]
        r is Ok ==> isa_names_identifier(ast.node),                                //# isa_needs_a_class_identifier [C05]
        (r is Ok && boolean_rule(ast.node) is Some) ==> typed_as(*final(constr), *ast, "Bool"@), //# logical_operator_is_typed_bool [C05]
        (r is Ok && ast.node is SubU) ==> typed_by_method(*final(constr), *ast, "__neg__"@, operands(ast.node)[0], seq![operands(ast.node)[0]]), //# unary_minus_is_typed_as_neg_of_its_operand [C05,C06]
        (r is Ok && ast.node is AddU) ==> has(*final(constr), exp_of(*ast), exp_of(operands(ast.node)[0])), //# unary_plus_is_typed_as_its_operand [C05,C06]
        (r is Ok && ast.node is Sqrt) ==> typed_as(*final(constr), *ast, "Float"@) && typed_by_method(*final(constr), *ast, "sqrt"@, operands(ast.node)[0], seq![operands(ast.node)[0]]), //# sqrt_is_float_and_needs_the_operands_sqrt [C05,C06]
        (r is Ok && (ast.node is BLShift || ast.node is BRShift)) ==> must_be(*final(constr), operands(ast.node)[1], "Int"@, operands(ast.node)[1].pos), //# shift_amount_must_be_int [C05,C06]
        (r is Ok && !(binary_rule(ast.node) is Some)) ==> forall|i: int| 0 <= i < operands(ast.node).len() ==> seen(*final(constr), #[trigger] operands(ast.node)[i], *env), //# every_operand_is_checked_in_the_callers_environment [C05,C06,C09]
        (r is Ok && !(binary_rule(ast.node) is Some) && !(ast.node is AddU) && !(ast.node is SubU) && !(ast.node is Sqrt)) ==> r == Ok::<Environment, Vec<TypeErr>>(*env), //# operators_define_nothing [C09]
        (r is Ok) ==> (binary_rule(ast.node) is Some || literal_rule(ast.node) is Some || operands(ast.node).len() > 0), //# only_operators_and_literals_are_accepted_here [C05]
        r is Err ==> r->Err_0@.len() >= 1,                                         //# rejection_carries_a_diagnostic [-]
//@@ END

} // verus!
fn main() {}
