//@@ UNIT PIPE
// Unit PIPE — src/lib.rs::mamba_to_python, the function every file of a project goes through (parse -> context -> check ->
// generate, each over all files), and the three `with_source` implementations that attach a file to a diagnostic.
// The stages themselves (FromStr for AST, Context::try_from, check, gen_arguments) are externals named by uninterpreted
// functions of their arguments; what is verified is the PLUMBING between them, for any number of files: which file's text
// and path a diagnostic is given, that a rejection is never empty, that output i is the translation of input i with the
// caller's annotate flag.  Every iterator chain is handed, with the SAME closures (bodies carried verbatim, CLOSURE
// SPLICING), to a generic helper with the library's contract (A-REWRITE).
#![feature(allocator_api)]
#![allow(unused_imports, dead_code, unused_variables, non_snake_case, unused_mut)]
use vstd::prelude::*;
use std::path::PathBuf;

//@@ INCLUDE pos_types.inc.rs
//@@ TYPE src/common/result.rs | struct | Cause
//@@ TYPE src/parse/result.rs | struct | ParseErr
//@@ TYPE src/check/result.rs | struct | TypeErr | pubfields | strip_derive=Eq
//@@ TYPE src/generate/result.rs | struct | UnimplementedErr
//@@ TYPE src/generate/mod.rs | struct | GenArguments
//@@ TYPE src/lib.rs | struct | PipelineArguments
/// opaque stand-ins: the stages' data
pub struct AST { _x: u8 }
pub struct ASTTy { _x: u8 }
pub struct Core { _x: u8 }
pub struct Context { _x: u8 }
pub type TypeResult<T = ASTTy> = Result<T, Vec<TypeErr>>;

// ---- /repo functions with ASSUMED contracts in this unit (bodies pinned: contracts/assume_pins.json) ----------------------------
//@@ ASSUME src/check/context/mod.rs | impl TryFrom<&[AST]> for Context | try_from
//@@ ASSUME src/check/context/generic.rs | free | generics
//@@ ASSUME src/check/mod.rs | free | check
verus! {

#[verifier::external_type_specification] pub struct ExPosition(Position);
#[verifier::external_type_specification] pub struct ExCaretPos(CaretPos);
#[verifier::external_type_specification] pub struct ExCause(Cause);
#[verifier::external_type_specification] pub struct ExParseErr(ParseErr);
#[verifier::external_type_specification] pub struct ExTypeErr(TypeErr);
#[verifier::external_type_specification] pub struct ExUnimplementedErr(UnimplementedErr);
#[verifier::external_type_specification] pub struct ExGenArguments(GenArguments);
#[verifier::external_type_specification] pub struct ExPipelineArguments(PipelineArguments);
#[verifier::external_type_specification] #[verifier::external_body] pub struct ExPathBuf(PathBuf);
#[verifier::external_type_specification] #[verifier::external_body] pub struct ExAST(AST);
#[verifier::external_type_specification] #[verifier::external_body] pub struct ExASTTy(ASTTy);
#[verifier::external_type_specification] #[verifier::external_body] pub struct ExCore(Core);
#[verifier::external_type_specification] #[verifier::external_body] pub struct ExContext(Context);

pub type File = (String, Option<PathBuf>);

// ---- trusted std specifications (A-STD / A-DERIVE) ---------------------------------------------------------------------------------
pub assume_specification[<PathBuf as Clone>::clone](t: &PathBuf) -> (r: PathBuf) ensures r == *t;
pub assume_specification[<TypeErr as Clone>::clone](t: &TypeErr) -> (r: TypeErr) ensures r == *t;
pub assume_specification<T, A: core::alloc::Allocator>[<Vec<T, A> as AsRef<[T]>>::as_ref](v: &Vec<T, A>) -> (r: &[T]) ensures r@ == v@;
pub assume_specification<T>[std::slice::from_ref::<T>](s: &T) -> (r: &[T]) ensures r@ == seq![*s];

// ---- the stages (A-EXT): each is a function of its arguments ---------------------------------------------------------------------
pub uninterp spec fn parse_of(src: Seq<char>) -> Result<AST, Box<ParseErr>>;
pub uninterp spec fn ctx_of(asts: Seq<AST>) -> Result<Context, Vec<TypeErr>>;
pub uninterp spec fn check_of(ast: AST, ctx: Context) -> Result<ASTTy, Vec<TypeErr>>;
pub uninterp spec fn gen_of(ast: ASTTy, annotate: bool, ctx: Context) -> Result<Core, Box<UnimplementedErr>>;
/// the text `format!("{x}")` yields (Display)
pub uninterp spec fn rendered<T>(t: T) -> Seq<char>;
/// the path shown for a file: its path relative to the source directory (closure `strip_prefix`, outlined)
pub uninterp spec fn shown_path(p: Option<PathBuf>, dir: PathBuf) -> Option<PathBuf>;

/// REPLACED `src.parse::<AST>()` (FromStr for AST, unit PARSE)
#[verifier::external_body]
pub fn verif_parse(src: &String) -> (r: Result<AST, Box<ParseErr>>) ensures r == parse_of(src@) { unimplemented!() }
impl Context {
    /// A-EXT (bodies of Context::try_from and generics pinned): definitions are gathered file by file and every definition
    /// on its own, so a project whose context cannot be built contains a file whose context cannot be built on its own;
    /// a failure carries at least one error.
    #[verifier::external_body]
    pub fn try_from(files: &[AST]) -> (r: Result<Context, Vec<TypeErr>>)
        ensures r == ctx_of(files@),
            r matches Err(e) ==> e@.len() >= 1 && exists|i: int| 0 <= i < files@.len() && #[trigger] ctx_of(seq![files@[i]]) is Err,
    { unimplemented!() }
}
/// A-EXT (body of check pinned): a failed check carries at least one error
#[verifier::external_body]
pub fn check(ast: &AST, ctx: &Context) -> (r: TypeResult)
    ensures r == check_of(*ast, *ctx), r matches Err(e) ==> e@.len() >= 1,
{ unimplemented!() }
#[verifier::external_body]
pub fn gen_arguments(ast_ty: &ASTTy, gen_args: &GenArguments, ctx: &Context) -> (r: Result<Core, Box<UnimplementedErr>>)
    ensures r == gen_of(*ast_ty, gen_args.annotate, *ctx),
{ unimplemented!() }
/// text of any other format! (macro rewrite): unknown
#[verifier::external_body] pub fn verif_opaque_string() -> String { unimplemented!() }
/// REPLACED `format!("{x}")` / `format!("{}", x)`: Display
#[verifier::external_body]
pub fn verif_display<T>(t: &T) -> (s: String) ensures s@ == rendered(*t) { unimplemented!() }
/// OUTLINED the closure `strip_prefix` and `source.iter().map(|(src, dir)| (src.clone(), dir.clone().map(strip_prefix))).collect()`:
/// the same texts, each path made relative to the source directory
#[verifier::external_body]
pub fn verif_outline_shown(source: &[File], source_dir: &PathBuf) -> (r: Vec<File>)
    ensures r@.len() == source@.len(),
        forall|i: int| 0 <= i < source@.len() ==> (#[trigger] r@[i]).0@ == source@[i].0@ && r@[i].1 == shown_path(source@[i].1, *source_dir),
{ unimplemented!() }

// ---- iterator chains (A-REWRITE): the contracts of map / zip / partition / find / flatten / collect -----------------------------------
pub open spec fn all_ok<R, E>(m: Seq<Result<R, E>>) -> bool { forall|i: int| 0 <= i < m.len() ==> (#[trigger] m[i]) is Ok }
/// `v.iter().map(f).partition(Result::is_ok)`: f's result per element (ghost m), the successes and the failures, each in order.
/// `from` says which element a failure came from.
#[verifier::external_body]
pub fn verif_map_partition<T, R, E, F: Fn(&T) -> Result<R, E>>(v: &Vec<T>, f: F, Ghost(post): Ghost<spec_fn(T, Result<R, E>) -> bool>)
    -> (r: (Vec<Result<R, E>>, Vec<Result<R, E>>, Ghost<Seq<Result<R, E>>>, Ghost<Seq<int>>))
    requires forall|x: T| #[trigger] f.requires((&x,)),
        forall|x: T, out: Result<R, E>| #[trigger] f.ensures((&x,), out) ==> post(x, out),
    ensures ({ let m = r.2@; let from = r.3@;
        m.len() == v@.len() && (forall|i: int| 0 <= i < m.len() ==> post(v@[i], #[trigger] m[i]))
        && (forall|k: int| 0 <= k < r.0@.len() ==> (#[trigger] r.0@[k]) is Ok)
        && (forall|k: int| 0 <= k < r.1@.len() ==> (#[trigger] r.1@[k]) is Err)
        && from.len() == r.1@.len() && (forall|k: int| 0 <= k < from.len() ==> 0 <= #[trigger] from[k] < m.len() && r.1@[k] == m[from[k]])
        && (r.1@.len() == 0 <==> all_ok(m)) && (all_ok(m) ==> r.0@ == m)
    }),
{ unimplemented!() }
/// `a.iter().zip(b).map(f).partition(Result::is_ok)`: the same over the pairs (a[i], b[i])
#[verifier::external_body]
pub fn verif_zip_map_partition<A, B, R, E, F: Fn(&A, &B) -> Result<R, E>>(a: &Vec<A>, b: &Vec<B>, f: F, Ghost(post): Ghost<spec_fn(A, B, Result<R, E>) -> bool>)
    -> (r: (Vec<Result<R, E>>, Vec<Result<R, E>>, Ghost<Seq<Result<R, E>>>, Ghost<Seq<int>>))
    requires forall|x: A, y: B| #[trigger] f.requires((&x, &y)),
        forall|x: A, y: B, out: Result<R, E>| #[trigger] f.ensures((&x, &y), out) ==> post(x, y, out),
    ensures ({ let m = r.2@; let from = r.3@;
        m.len() == (if a@.len() <= b@.len() { a@.len() } else { b@.len() }) && (forall|i: int| 0 <= i < m.len() ==> post(a@[i], b@[i], #[trigger] m[i]))
        && (forall|k: int| 0 <= k < r.0@.len() ==> (#[trigger] r.0@[k]) is Ok)
        && (forall|k: int| 0 <= k < r.1@.len() ==> (#[trigger] r.1@[k]) is Err)
        && from.len() == r.1@.len() && (forall|k: int| 0 <= k < from.len() ==> 0 <= #[trigger] from[k] < m.len() && r.1@[k] == m[from[k]])
        && (r.1@.len() == 0 <==> all_ok(m)) && (all_ok(m) ==> r.0@ == m)
    }),
{ unimplemented!() }
/// `v.into_iter().map(Result::unwrap_err).collect()`; panics unless every element is an Err
#[verifier::external_body]
pub fn verif_unwrap_errs<R, E>(v: Vec<Result<R, E>>) -> (r: Vec<E>)
    requires forall|k: int| 0 <= k < v@.len() ==> (#[trigger] v@[k]) is Err,
    ensures r@.len() == v@.len(), forall|k: int| 0 <= k < v@.len() ==> v@[k] == Err::<R, E>(#[trigger] r@[k]),
{ unimplemented!() }
/// `v.into_iter().map(Result::unwrap).collect()`; panics unless every element is an Ok
#[verifier::external_body]
pub fn verif_unwrap_oks<R, E>(v: Vec<Result<R, E>>) -> (r: Vec<R>)
    requires forall|k: int| 0 <= k < v@.len() ==> (#[trigger] v@[k]) is Ok,
    ensures r@.len() == v@.len(), forall|k: int| 0 <= k < v@.len() ==> v@[k] == Ok::<R, E>(#[trigger] r@[k]),
{ unimplemented!() }
/// `v.iter().map(f).collect()`
#[verifier::external_body]
pub fn verif_map_collect<T, U, F: Fn(&T) -> U>(v: &Vec<T>, f: F, Ghost(post): Ghost<spec_fn(T, U) -> bool>) -> (r: Vec<U>)
    requires forall|x: T| #[trigger] f.requires((&x,)),
        forall|x: T, out: U| #[trigger] f.ensures((&x,), out) ==> post(x, out),
    ensures r@.len() == v@.len(), forall|k: int| 0 <= k < v@.len() ==> post(v@[k], #[trigger] r@[k]),
{ unimplemented!() }
/// `vv.iter().flatten().map(f).collect()`: f's result for every inner element (`at` says which), none dropped
#[verifier::external_body]
pub fn verif_flatten_map_collect<T, U, F: Fn(&T) -> U>(vv: &Vec<Vec<T>>, f: F, Ghost(post): Ghost<spec_fn(T, U) -> bool>) -> (r: (Vec<U>, Ghost<Seq<(int, int)>>))
    requires forall|x: T| #[trigger] f.requires((&x,)),
        forall|x: T, out: U| #[trigger] f.ensures((&x,), out) ==> post(x, out),
    ensures ({ let at = r.1@;
        at.len() == r.0@.len()
        && (forall|q: int| 0 <= q < at.len() ==> 0 <= (#[trigger] at[q]).0 < vv@.len() && 0 <= at[q].1 < vv@[at[q].0]@.len() && post(vv@[at[q].0]@[at[q].1], r.0@[q]))
        && (forall|k: int| 0 <= k < vv@.len() ==> r.0@.len() >= (#[trigger] vv@[k])@.len())
    }),
{ unimplemented!() }
/// `a.iter().zip(b).find(p).map_or(d, g)`: g of the first pair p accepts, d if there is none
#[verifier::external_body]
pub fn verif_zip_find_map_or<A, B, U, P: Fn(&A, &B) -> bool, G: Fn(&A, &B) -> U>(a: &Vec<A>, b: &Vec<B>, p: P, d: U, g: G,
        Ghost(accepts): Ghost<spec_fn(A) -> bool>, Ghost(post): Ghost<spec_fn(B, U) -> bool>) -> (r: (U, Ghost<int>))
    requires forall|x: A, y: B| #[trigger] p.requires((&x, &y)), forall|x: A, y: B| #[trigger] g.requires((&x, &y)),
        forall|x: A, y: B, out: bool| #[trigger] p.ensures((&x, &y), out) ==> out == accepts(x),
        forall|x: A, y: B, out: U| #[trigger] g.ensures((&x, &y), out) ==> post(y, out),
    ensures ({ let n = if a@.len() <= b@.len() { a@.len() as int } else { b@.len() as int }; let i = r.1@;
        if exists|j: int| 0 <= j < n && accepts(a@[j]) { 0 <= i < n && accepts(a@[i]) && post(b@[i], r.0) && forall|j: int| 0 <= j < i ==> !accepts(#[trigger] a@[j]) }
        else { i == -1 && r.0 == d } }),
{ unimplemented!() }

// ---- specification (C19, C01, C11) ---------------------------------------------------------------------------------------------
/// a diagnostic carries the text and the shown path of file f
pub open spec fn names_file(source: Option<String>, path: Option<PathBuf>, f: File) -> bool {
    (source matches Some(s) && s@ == f.0@) && path == f.1
}
pub open spec fn parse_err_of(e0: ParseErr, e: ParseErr) -> bool { e.pos == e0.pos && e.msg == e0.msg && e.causes == e0.causes }
pub open spec fn type_err_of(e0: TypeErr, e: TypeErr) -> bool { e.pos == e0.pos && e.msg == e0.msg && e.causes == e0.causes }
pub open spec fn gen_err_of(e0: UnimplementedErr, e: UnimplementedErr) -> bool { e.position == e0.position && e.msg == e0.msg }

/// message m is a syntax error of file f, rendered with f's text and path
pub open spec fn parse_diag(m: Seq<char>, f: File, e: ParseErr) -> bool {
    m == rendered(e) && names_file(e.source, e.path, f) && (parse_of(f.0@) matches Err(b) && parse_err_of(*b, e))
}
/// message m is the j-th type error of file f (checked in context ctx), rendered with f's text and path
pub open spec fn type_diag(m: Seq<char>, f: File, ctx: Context, j: int, e: TypeErr) -> bool {
    m == rendered(e) && names_file(e.source, e.path, f)
    && (parse_of(f.0@) matches Ok(ast) && (check_of(ast, ctx) matches Err(errs) && 0 <= j < errs@.len() && type_err_of(errs@[j], e)))
}
/// message m is the j-th error of building the context of all files; f is a file whose context cannot be built on its own
pub open spec fn ctx_diag(m: Seq<char>, f: File, all: Seq<AST>, j: int, e: TypeErr) -> bool {
    m == rendered(e) && names_file(e.source, e.path, f)
    && (ctx_of(all) matches Err(errs) && 0 <= j < errs@.len() && type_err_of(errs@[j], e))
    && (parse_of(f.0@) matches Ok(ast) && ctx_of(seq![ast]) is Err)
}
/// message m is the generation error of file f, rendered with f's text and path
pub open spec fn gen_diag(m: Seq<char>, f: File, ctx: Context, annotate: bool, e: UnimplementedErr) -> bool {
    m == rendered(e) && names_file(e.source, e.path, f)
    && (parse_of(f.0@) matches Ok(ast) && (check_of(ast, ctx) matches Ok(t) && (gen_of(t, annotate, ctx) matches Err(b) && gen_err_of(*b, e))))
}
/// m is a diagnostic of file f
pub open spec fn diag_of(m: Seq<char>, f: File, annotate: bool) -> bool {
    ||| exists|e: ParseErr| #[trigger] parse_diag(m, f, e)
    ||| exists|ctx: Context, j: int, e: TypeErr| #[trigger] type_diag(m, f, ctx, j, e)
    ||| exists|all: Seq<AST>, j: int, e: TypeErr| #[trigger] ctx_diag(m, f, all, j, e)
    ||| exists|ctx: Context, e: UnimplementedErr| #[trigger] gen_diag(m, f, ctx, annotate, e)
}
/// m is a diagnostic of one of the files
pub open spec fn belongs_somewhere(m: Seq<char>, source: Seq<File>, dir: PathBuf, annotate: bool) -> bool {
    exists|i: int| 0 <= i < source.len() && #[trigger] diag_of(m, file_of(source, dir, i), annotate)
}
/// the file the pipeline works with for input i: the same text, the path as shown
pub open spec fn file_of(source: Seq<File>, dir: PathBuf, i: int) -> File { (source[i].0, shown_path(source[i].1, dir)) }
/// text p is the translation of file text src (in context ctx)
pub open spec fn translation_of(p: Seq<char>, src: Seq<char>, ctx: Context, annotate: bool) -> bool {
    parse_of(src) matches Ok(ast) && (check_of(ast, ctx) matches Ok(t) && (gen_of(t, annotate, ctx) matches Ok(core) && p == rendered(core)))
}

/// one output per input, in the order of the inputs, each the translation of its own input in one common context
pub open spec fn all_translated(py: Seq<String>, source: Seq<File>, ctx: Context, annotate: bool) -> bool {
    py.len() == source.len() && forall|i: int| 0 <= i < source.len() ==> translation_of((#[trigger] py[i])@, source[i].0@, ctx, annotate)
}
/// the trees of all files, in input order
pub open spec fn asts_of(source: Seq<File>) -> Seq<AST> {
    Seq::new(source.len(), |i: int| match parse_of(source[i].0@) { Ok(a) => a, Err(_) => arbitrary() })
}
/// ... and that common context is the ONE context built from the trees of ALL files (definitions of every file are visible in every other)
pub open spec fn translated_in_order(py: Seq<String>, source: Seq<File>, annotate: bool) -> bool {
    exists|ctx: Context| #[trigger] all_translated(py, source, ctx, annotate) && ctx_of(asts_of(source)) == Ok::<Context, Vec<TypeErr>>(ctx)
}
// closure postconditions, named
pub open spec fn parse_post(f: File, r: Result<AST, ParseErr>) -> bool {
    match r { Ok(a) => parse_of(f.0@) == Ok::<AST, Box<ParseErr>>(a), Err(e) => names_file(e.source, e.path, f) && (parse_of(f.0@) matches Err(b) && parse_err_of(*b, e)) }
}
pub open spec fn check_post(ast: AST, f: File, ctx: Context, r: Result<ASTTy, Vec<TypeErr>>) -> bool {
    match r {
        Ok(t) => check_of(ast, ctx) == Ok::<ASTTy, Vec<TypeErr>>(t),
        Err(errs) => check_of(ast, ctx) matches Err(e0) && e0@.len() == errs@.len() && errs@.len() >= 1
            && forall|j: int| 0 <= j < errs@.len() ==> names_file((#[trigger] errs@[j]).source, errs@[j].path, f) && type_err_of(e0@[j], errs@[j]),
    }
}
pub open spec fn gen_post(t: ASTTy, f: File, ctx: Context, annotate: bool, r: Result<String, UnimplementedErr>) -> bool {
    match r {
        Ok(p) => gen_of(t, annotate, ctx) matches Ok(core) && p@ == rendered(core),
        Err(e) => names_file(e.source, e.path, f) && (gen_of(t, annotate, ctx) matches Err(b) && gen_err_of(*b, e)),
    }
}

impl ParseErr {
//@@ FN src/parse/result.rs | impl WithSource for ParseErr | with_source | props=C19,C03
    ensures r == (ParseErr { source: *source, path: *path, ..self }),            //# a_syntax_error_is_given_exactly_that_file [C19]
//@@ END
}
impl TypeErr {
//@@ FN src/check/result.rs | impl WithSource for TypeErr | with_source | props=C19,C03
    ensures r == (TypeErr { source: *source, path: *path, ..self }),             //# a_type_error_is_given_exactly_that_file [C19]
//@@ END
}
impl UnimplementedErr {
//@@ FN src/generate/result.rs | impl WithSource for UnimplementedErr | with_source | props=C19,C03
    ensures r == (UnimplementedErr { source: *source, path: *path, ..self }),    //# a_generation_error_is_given_exactly_that_file [C19]
//@@ END
}
impl GenArguments {
//@@ FN src/generate/mod.rs | impl From<&PipelineArguments> for GenArguments | from | as=from_pipeline | props=C11,C03
    ensures r.annotate == pipeline_args.annotate,                                //# the_annotate_flag_reaches_the_generator [C11]
//@@ END
}

//@@ FN src/lib.rs | free | mamba_to_python | props=C19,C01,C11,C13,C03
//@@ REPLACE pin=143830d79765
//@@< let strip_prefix = |$sp: PathBuf| { $$ };
//@@> let ghost source0 = source@;
//@@ REPLACE
//@@< source .iter() .map(|(src, dir)| (src.clone(), dir.clone().map(strip_prefix))) .collect()
//@@> verif_outline_shown(source, source_dir)
//@@ REPLACE count=all optional
//@@< format!("{err}")
//@@> verif_display(err)
//@@ REPLACE count=all optional
//@@< format!("{e}")
//@@> verif_display(e)
//@@ REPLACE count=all optional
//@@< format!("{core}")
//@@> verif_display(&core)
//@@ REPLACE count=all optional
//@@< format!("{}", $$)
//@@> verif_display(&($$1))
//@@ REPLACE
//@@< GenArguments::from($$)
//@@> GenArguments::from_pipeline($$1)
// -- stage 1: parse ---------------------------------------------------------------------------------------------------------------
//@@ REPLACE deep
//@@< let (asts, parse_errs): (Vec<_>, Vec<_>) = source .iter() .map(|(src, path)| { $$ }) .partition(Result::is_ok);
//@@> let (asts, parse_errs, Ghost(m1), Ghost(from1)) = verif_map_partition(&source, |verif_f: &File| -> (res: Result<AST, ParseErr>) ensures /*# a_syntax_error_is_attributed_to_the_file_it_was_found_in [C19] #*/ parse_post(*verif_f, res), { let (src, path) = verif_f; $$1 }, Ghost(|f: File, res: Result<AST, ParseErr>| parse_post(f, res)));
//@@ REPLACE deep
//@@< src.parse::<AST>() .map_err(|err| err.with_source(&Some(src.clone()), &path.clone()))
//@@> verif_parse(src).map_err(|err: Box<ParseErr>| -> (e: ParseErr) ensures /*# a_syntax_error_is_given_the_text_and_path_of_its_file [C19] #*/ names_file(e.source, e.path, (*src, *path)) && parse_err_of(*err, e), { err.with_source(&Some(src.clone()), &path.clone()) })
//@@ REPLACE
//@@< parse_errs.into_iter().map(Result::unwrap_err).collect()
//@@> verif_unwrap_errs(parse_errs)
//@@ REPLACE deep
//@@< parse_errs.iter().map(|err| $$).collect()
//@@> { let verif_msgs = verif_map_collect(&parse_errs, |err: &ParseErr| -> (s: String) ensures /*# a_syntax_diagnostic_is_the_rendering_of_its_error [C19] #*/ s@ == rendered(*err), { $$1 }, Ghost(|e: ParseErr, s: String| s@ == rendered(e))); proof { assert forall|k: int| 0 <= k < verif_msgs@.len() implies belongs_somewhere(#[trigger] verif_msgs@[k]@, source0, *source_dir, pipeline_args.annotate) by { let i = from1[k]; assert(m1[i] == Err::<AST, ParseErr>(parse_errs@[k])); assert(parse_post(source@[i], m1[i])); /*# a_syntax_diagnostic_belongs_to_the_file_it_names [C19] #*/ assert(parse_diag(verif_msgs@[k]@, file_of(source0, *source_dir, i), parse_errs@[k])); assert(diag_of(verif_msgs@[k]@, file_of(source0, *source_dir, i), pipeline_args.annotate)); } } verif_msgs }
//@@ REPLACE
//@@< asts.into_iter().map(Result::unwrap).collect()
//@@> verif_unwrap_oks(asts)
//@@ HINT after
//@@< let asts: Vec<AST> = $$;
//@@> proof { assert(all_ok(m1)); assert forall|i: int| 0 <= i < source@.len() implies parse_of(source@[i].0@) == Ok::<AST, Box<ParseErr>>(#[trigger] asts@[i]) by { assert(parse_post(source@[i], m1[i])); } assert(asts@ =~= asts_of(source0)); }
// -- stage 2: context -------------------------------------------------------------------------------------------------------------
//@@ REPLACE deep
//@@< Context::try_from(asts.as_ref()).map_err(|errs| { $$ })?
//@@> Context::try_from(asts.as_ref()).map_err(|errs: Vec<TypeErr>| -> (msgs: Vec<String>) requires ctx_of(asts@) == Err::<Context, Vec<TypeErr>>(errs) && errs@.len() >= 1 && exists|i: int| 0 <= i < asts@.len() && #[trigger] ctx_of(seq![asts@[i]]) is Err, ensures msgs@.len() >= 1 && forall|k: int| 0 <= k < msgs@.len() ==> belongs_somewhere(#[trigger] msgs@[k]@, source0, *source_dir, pipeline_args.annotate), { $$1 })?
//@@ REPLACE deep
//@@< let (src, path) = asts .iter() .zip(&source) .find(|(ast, _)| $$) .map_or((None, None), |(_, (src, path))| $$);
//@@> let ((src, path), Ghost(culprit)) = verif_zip_find_map_or(&asts, &source, |verif_a: &AST, verif_f: &File| -> (b: bool) ensures /*# the_culprit_is_a_file_whose_context_fails_on_its_own [C19] #*/ b == (ctx_of(seq![*verif_a]) is Err), { let (ast, verif_unused) = &(verif_a, verif_f); $$1 }, (None, None), |verif_a: &AST, verif_f: &File| -> (o: (Option<String>, Option<PathBuf>)) ensures /*# the_culprits_text_and_path_are_taken [C19] #*/ names_file(o.0, o.1, *verif_f), { let (verif_unused, (src, path)) = (verif_a, verif_f); $$2 }, Ghost(|a: AST| ctx_of(seq![a]) is Err), Ghost(|f: File, o: (Option<String>, Option<PathBuf>)| names_file(o.0, o.1, f)));
//@@ REPLACE deep
//@@< errs.iter() .map(|e| $$) .collect::<Vec<String>>()
//@@> { let verif_msgs = verif_map_collect(&errs, |e: &TypeErr| -> (s: String) ensures /*# a_context_diagnostic_is_the_rendering_of_its_error_with_the_culprits_file [C19] #*/ s@ == rendered(TypeErr { source: src, path: path, ..*e }), { $$1 }, Ghost(|e: TypeErr, s: String| s@ == rendered(TypeErr { source: src, path: path, ..e }))); proof { assert(0 <= culprit < asts@.len()); assert forall|k: int| 0 <= k < verif_msgs@.len() implies belongs_somewhere(#[trigger] verif_msgs@[k]@, source0, *source_dir, pipeline_args.annotate) by { /*# a_context_diagnostic_belongs_to_the_file_it_names [C19] #*/ assert(ctx_diag(verif_msgs@[k]@, file_of(source0, *source_dir, culprit), asts@, k, TypeErr { source: src, path: path, ..errs@[k] })); assert(diag_of(verif_msgs@[k]@, file_of(source0, *source_dir, culprit), pipeline_args.annotate)); } } verif_msgs }
// -- stage 3: check ---------------------------------------------------------------------------------------------------------------
//@@ REPLACE deep
//@@< let (typed_ast, type_errs): (Vec<_>, Vec<_>) = asts .iter() .zip(&source) .map(|(ast, (src, path))| { $$ }) .partition(Result::is_ok);
//@@> let (typed_ast, type_errs, Ghost(m2), Ghost(from2)) = verif_zip_map_partition(&asts, &source, |verif_a: &AST, verif_f: &File| -> (res: Result<ASTTy, Vec<TypeErr>>) ensures /*# a_type_error_is_attributed_to_the_file_it_was_found_in [C19] #*/ check_post(*verif_a, *verif_f, ctx, res), { let (ast, (src, path)) = (verif_a, verif_f); $$1 }, Ghost(|a: AST, f: File, res: Result<ASTTy, Vec<TypeErr>>| check_post(a, f, ctx, res)));
//@@ REPLACE deep
//@@< .map_err(|errs| { errs.iter() .map(|err| $$) .collect() })
//@@> .map_err(|errs: Vec<TypeErr>| -> (out: Vec<TypeErr>) ensures out@.len() == errs@.len() && forall|j: int| 0 <= j < errs@.len() ==> names_file((#[trigger] out@[j]).source, out@[j].path, (*src, *path)) && type_err_of(errs@[j], out@[j]), { verif_map_collect(&errs, |err: &TypeErr| -> (o: TypeErr) ensures /*# each_type_error_is_given_the_text_and_path_of_its_file [C19] #*/ names_file(o.source, o.path, (*src, *path)) && type_err_of(*err, o), { $$1 }, Ghost(|e: TypeErr, o: TypeErr| names_file(o.source, o.path, (*src, *path)) && type_err_of(e, o))) })
//@@ REPLACE
//@@< type_errs.into_iter().map(Result::unwrap_err).collect()
//@@> verif_unwrap_errs(type_errs)
//@@ REPLACE deep
//@@< type_errs .iter() .flatten() .map(|err| $$) .collect()
//@@> { let (verif_msgs, Ghost(at2)) = verif_flatten_map_collect(&type_errs, |err: &TypeErr| -> (s: String) ensures /*# a_type_diagnostic_is_the_rendering_of_its_error [C19] #*/ s@ == rendered(*err), { $$1 }, Ghost(|e: TypeErr, s: String| s@ == rendered(e))); proof { assert(m2[from2[0]] == Err::<ASTTy, Vec<TypeErr>>(type_errs@[0])); assert(check_post(asts@[from2[0]], source@[from2[0]], ctx, m2[from2[0]])); assert forall|q: int| 0 <= q < verif_msgs@.len() implies belongs_somewhere(#[trigger] verif_msgs@[q]@, source0, *source_dir, pipeline_args.annotate) by { let k = at2[q].0; let j = at2[q].1; let i = from2[k]; assert(m2[i] == Err::<ASTTy, Vec<TypeErr>>(type_errs@[k])); assert(check_post(asts@[i], source@[i], ctx, m2[i])); /*# a_type_diagnostic_belongs_to_the_file_it_names [C19] #*/ assert(type_diag(verif_msgs@[q]@, file_of(source0, *source_dir, i), ctx, j, type_errs@[k]@[j])); assert(diag_of(verif_msgs@[q]@, file_of(source0, *source_dir, i), pipeline_args.annotate)); } } verif_msgs }
//@@ REPLACE
//@@< typed_ast .into_iter() .map(Result::unwrap) .collect::<Vec<ASTTy>>()
//@@> verif_unwrap_oks(typed_ast)
//@@ HINT after
//@@< let typed_ast = $$;
//@@> proof { assert(all_ok(m2)); assert forall|i: int| 0 <= i < source@.len() implies check_of(asts@[i], ctx) == Ok::<ASTTy, Vec<TypeErr>>(#[trigger] typed_ast@[i]) by { assert(check_post(asts@[i], source@[i], ctx, m2[i])); } }
// -- stage 4: generate ------------------------------------------------------------------------------------------------------------
//@@ REPLACE deep
//@@< let (py_sources, gen_errs): (Vec<_>, Vec<_>) = typed_ast .iter() .zip(&source) .map(|(ast_ty, (src, path))| { $$ }) .partition(Result::is_ok);
//@@> let (py_sources, gen_errs, Ghost(m3), Ghost(from3)) = verif_zip_map_partition(&typed_ast, &source, |verif_t: &ASTTy, verif_f: &File| -> (res: Result<String, UnimplementedErr>) ensures /*# a_file_is_generated_from_its_own_tree_with_the_callers_flag_and_its_error_attributed_to_it [C19,C01,C11] #*/ gen_post(*verif_t, *verif_f, ctx, pipeline_args.annotate, res), { let (ast_ty, (src, path)) = (verif_t, verif_f); $$1 }, Ghost(|t: ASTTy, f: File, res: Result<String, UnimplementedErr>| gen_post(t, f, ctx, pipeline_args.annotate, res)));
//@@ REPLACE deep
//@@< gen_arguments(ast_ty, &gen_args, &ctx) .map_err(|err| err.with_source(&Some(src.clone()), &path.clone())) .map(|core| $$)
//@@> gen_arguments(ast_ty, &gen_args, &ctx) .map_err(|err: Box<UnimplementedErr>| -> (e: UnimplementedErr) ensures /*# a_generation_error_is_given_the_text_and_path_of_its_file [C19] #*/ names_file(e.source, e.path, (*src, *path)) && gen_err_of(*err, e), { err.with_source(&Some(src.clone()), &path.clone()) }) .map(|core: Core| -> (s: String) ensures /*# the_output_is_the_rendering_of_the_generated_tree [C01] #*/ s@ == rendered(core), { $$1 })
//@@ REPLACE
//@@< gen_errs.into_iter().map(Result::unwrap_err).collect()
//@@> verif_unwrap_errs(gen_errs)
//@@ REPLACE deep
//@@< gen_errs.iter().map(|err| $$).collect()
//@@> { let verif_msgs = verif_map_collect(&gen_errs, |err: &UnimplementedErr| -> (s: String) ensures /*# a_generation_diagnostic_is_the_rendering_of_its_error [C19] #*/ s@ == rendered(*err), { $$1 }, Ghost(|e: UnimplementedErr, s: String| s@ == rendered(e))); proof { assert forall|k: int| 0 <= k < verif_msgs@.len() implies belongs_somewhere(#[trigger] verif_msgs@[k]@, source0, *source_dir, pipeline_args.annotate) by { let i = from3[k]; assert(m3[i] == Err::<String, UnimplementedErr>(gen_errs@[k])); assert(gen_post(typed_ast@[i], source@[i], ctx, pipeline_args.annotate, m3[i])); /*# a_generation_diagnostic_belongs_to_the_file_it_names [C19] #*/ assert(gen_diag(verif_msgs@[k]@, file_of(source0, *source_dir, i), ctx, pipeline_args.annotate, gen_errs@[k])); assert(diag_of(verif_msgs@[k]@, file_of(source0, *source_dir, i), pipeline_args.annotate)); } } verif_msgs }
//@@ REPLACE
//@@< py_sources.into_iter().map(Result::unwrap).collect()
//@@> verif_unwrap_oks(py_sources)
//@@ HINT after
//@@< let py_sources: Vec<String> = $$;
//@@> proof { assert(all_ok(m3)); assert forall|i: int| 0 <= i < source0.len() implies translation_of((#[trigger] py_sources@[i])@, source0[i].0@, ctx, pipeline_args.annotate) by { assert(gen_post(typed_ast@[i], source@[i], ctx, pipeline_args.annotate, m3[i])); } assert(all_translated(py_sources@, source0, ctx, pipeline_args.annotate)); assert(translated_in_order(py_sources@, source0, pipeline_args.annotate)); }
    ensures
        r matches Err(msgs) ==> msgs@.len() >= 1,                                //# every_rejection_carries_a_diagnostic [C19]
        r matches Err(msgs) ==> forall|k: int| 0 <= k < msgs@.len() ==> belongs_somewhere(#[trigger] msgs@[k]@, source@, *source_dir, pipeline_args.annotate),   //# each_diagnostic_names_the_file_it_belongs_to [C19]
        r matches Ok(py) ==> translated_in_order(py@, source@, pipeline_args.annotate),   //# output_i_is_the_translation_of_input_i_in_the_context_of_all_files_with_the_callers_flag [C01,C11,C13]
//@@ END

} // verus!

fn main() {}
