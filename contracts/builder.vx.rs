//@@ UNIT BUILDER
// Unit BUILDER — src/check/constrain/constraint/builder.rs: the constraint builder that units GENDEF / GENFLOW / GENCALL take as
// an external object with ghost logs.  Here its real methods are verified against a concrete reading of "a constraint is
// recorded and never dropped": `present(b, c)` = c sits in at least one of the builder's constraint sets.  add / add_constr /
// add_constr_map make the (mapped) constraint present and keep every present constraint; branch_point / branch /
// reset_branches / temp_name keep every present constraint; the builder is never without a set (the code's own
// `expect("Is never empty")` and `len() - 1`).  The pushes through `&mut` iteration / IndexMut and the inheriting filter
// chain of `branch` are rewritten into helpers with the obvious contracts (A-REWRITE).
#![allow(unused_imports, dead_code, unused_variables, non_snake_case, unused_mut)]
use vstd::prelude::*;
use std::marker::PhantomData;

//@@ INCLUDE pos_types.inc.rs
#[derive(Clone, Debug)] pub struct HashMap<K, V> { _k: PhantomData<K>, _v: PhantomData<V> }
pub type VarMapping = HashMap<String, usize>;
/// partial stand-in: the position (read by the trace! line) is real, the rest opaque
#[derive(Clone, Debug, PartialEq, Eq, Hash)]
pub struct Expected { pub pos: Position, pub verif_rest: u8 }
//@@ TYPE src/check/constrain/constraint/mod.rs | struct | Constraint
pub struct Name { _x: u8 }
pub struct Environment { pub var_mapping: VarMapping, pub verif_rest: u8 }
type ConstraintLvls = Vec<(Constraint, usize)>;
//@@ TYPE src/check/constrain/constraint/builder.rs | struct | ConstrBuilder | pubfields

verus! {

#[verifier::external_type_specification] pub struct ExPosition(Position);
#[verifier::external_type_specification] pub struct ExCaretPos(CaretPos);
#[verifier::external_type_specification] #[verifier::external_body] #[verifier::accept_recursive_types(K)] #[verifier::accept_recursive_types(V)]
pub struct ExHashMap<K, V>(HashMap<K, V>);
#[verifier::external_type_specification] pub struct ExConstraint(Constraint);
#[verifier::external_type_specification] pub struct ExExpected(Expected);
#[verifier::external_type_specification] #[verifier::external_body] pub struct ExName(Name);
#[verifier::external_type_specification] pub struct ExEnvironment(Environment);
#[verifier::external_type_specification] pub struct ExConstrBuilder(ConstrBuilder);
pub assume_specification[<Constraint as Clone>::clone](t: &Constraint) -> (r: Constraint) ensures r == *t;
#[verifier::external_body] pub fn verif_opaque_string() -> String { unimplemented!() }

//@@ ASSUME src/check/constrain/constraint/mod.rs | impl MapExp for Constraint | map_exp
//@@ ASSUME src/check/constrain/constraint/mod.rs | impl Constraint | new
/// the constraint as it is stored: variable names replaced by their shadowed spellings (Constraint::map_exp, A-EXT)
pub uninterp spec fn mapped(c: Constraint, vm: VarMapping, gm: VarMapping) -> Constraint;
pub uninterp spec fn c_new(msg: Seq<char>, parent: Expected, child: Expected) -> Constraint;
impl Constraint {
    #[verifier::external_body]
    pub fn map_exp(&self, var_mapping: &VarMapping, global: &VarMapping) -> (r: Constraint) ensures r == mapped(*self, *var_mapping, *global) { unimplemented!() }
    #[verifier::external_body]
    pub fn new(msg: &str, parent: &Expected, child: &Expected) -> (r: Constraint) ensures r == c_new(msg@, *parent, *child) { unimplemented!() }
}
impl Environment {
    // field access `env.var_mapping` needs the field to be readable: stand-in with that one public field
}
#[verifier::external_body]
pub fn comma_delm(v: Vec<usize>) -> String { unimplemented!() }
#[verifier::external_body]
pub fn format_var_map(var: &str, offset: &usize) -> String { unimplemented!() }
impl Name {
    #[verifier::external_body]
    pub fn from(s: &str) -> Name { unimplemented!() }
}
impl Position {
    #[verifier::external_body]
    pub fn invisible() -> Position { unimplemented!() }
}
pub assume_specification<'a>[<String as From<&'a str>>::from](s: &str) -> (r: String) ensures r@ == s@;
impl<V> HashMap<String, V> {
    #[verifier::external_body]
    pub fn new() -> HashMap<String, V> { unimplemented!() }
}

// ---- specification ------------------------------------------------------------------------------------------------------------
/// the builder always has at least one constraint set (what `expect("Is never empty")` and `len() - 1` rely on)
pub open spec fn wf(b: ConstrBuilder) -> bool { b.constraints@.len() >= 1 }
/// c is recorded: it sits in at least one constraint set
pub open spec fn present(b: ConstrBuilder, c: Constraint) -> bool {
    exists|i: int, k: int| 0 <= i < b.constraints@.len() && 0 <= k < (#[trigger] b.constraints@[i]).2@.len() && (#[trigger] b.constraints@[i].2@[k]).0 == c
}
/// nothing recorded is dropped
pub open spec fn keeps(a: ConstrBuilder, b: ConstrBuilder) -> bool { forall|c: Constraint| present(a, c) ==> present(b, c) }
/// every set of `a` is still there, at the same place, as a prefix of what is there now
pub open spec fn extends(a: Seq<(Position, String, Vec<(Constraint, usize)>)>, b: Seq<(Position, String, Vec<(Constraint, usize)>)>) -> bool {
    a.len() <= b.len() && forall|i: int| 0 <= i < a.len() ==> (#[trigger] a[i]).2@.len() <= b[i].2@.len()
        && forall|k: int| 0 <= k < a[i].2@.len() ==> (#[trigger] b[i].2@[k]) == a[i].2@[k]
}
pub proof fn lemma_extends_keeps(a: ConstrBuilder, b: ConstrBuilder)
    requires extends(a.constraints@, b.constraints@),
    ensures keeps(a, b),
{
    assert forall|c: Constraint| present(a, c) implies present(b, c) by {
        let (i, k) = choose|i: int, k: int| 0 <= i < a.constraints@.len() && 0 <= k < (#[trigger] a.constraints@[i]).2@.len() && (#[trigger] a.constraints@[i].2@[k]).0 == c;
        assert(b.constraints@[i].2@[k] == a.constraints@[i].2@[k]);
    }
}

/// A-REWRITE: `for (i, (_, _, constraints)) in enumerate(&mut self.constraints) { constraints.push((c.clone(), lvl)); lvls.push(i); }`
/// — iteration by `&mut`: every set gets the constraint appended
#[verifier::external_body]
pub fn verif_push_all(sets: &mut Vec<(Position, String, Vec<(Constraint, usize)>)>, c: Constraint, lvl: usize, lvls: &mut Vec<usize>)
    ensures final(sets)@.len() == old(sets)@.len(),
        forall|i: int| 0 <= i < old(sets)@.len() ==> (#[trigger] final(sets)@[i]).2@ == old(sets)@[i].2@.push((c, lvl)),
{ unimplemented!() }
/// A-REWRITE: `self.constraints[i].2.push((c.clone(), lvl))` — IndexMut: set i gets the constraint appended, the others are untouched
#[verifier::external_body]
pub fn verif_push_at(sets: &mut Vec<(Position, String, Vec<(Constraint, usize)>)>, i: usize, c: Constraint, lvl: usize)
    requires i < old(sets)@.len(),
    ensures final(sets)@.len() == old(sets)@.len(), final(sets)@[i as int].2@ == old(sets)@[i as int].2@.push((c, lvl)),
        forall|j: int| 0 <= j < old(sets)@.len() && j != i ==> #[trigger] final(sets)@[j] == old(sets)@[j],
{ unimplemented!() }
/// OUTLINED: what a new branch inherits — the whole last set, or its constraints below the branch point (filter/cloned/collect)
#[verifier::external_body]
pub fn verif_inherited(sets: &Vec<(Position, String, Vec<(Constraint, usize)>)>, joined: bool, branch_point: usize) -> (r: Vec<(Constraint, usize)>)
    requires sets@.len() >= 1,
{ unimplemented!() }

impl ConstrBuilder {
//@@ FN src/check/constrain/constraint/builder.rs | impl ConstrBuilder | new
    ensures wf(r),                                                               //# a_new_builder_has_one_set [C03,C05]
//@@ END
//@@ FN src/check/constrain/constraint/builder.rs | impl ConstrBuilder | temp_name
    requires old(self).temp_name_offset < usize::MAX,                            //# fewer_than_2_64_temporaries [C03]
    ensures final(self).constraints == old(self).constraints,                    //# a_temporary_name_records_and_drops_nothing [C05,C06]
//@@ END
//@@ FN src/check/constrain/constraint/builder.rs | impl ConstrBuilder | branch_point
    requires old(self).branch_point < usize::MAX, wf(*old(self)),                //# builder_has_a_set [C03]
    ensures final(self).constraints == old(self).constraints,                    //# a_branch_point_records_and_drops_nothing [C05,C06]
//@@ END
//@@ FN src/check/constrain/constraint/builder.rs | impl ConstrBuilder | reset_branches
    requires wf(*old(self)),                                                     //# builder_has_a_set [C03]
    ensures final(self).constraints == old(self).constraints,                    //# joining_branches_records_and_drops_nothing [C05,C06]
//@@ END
//@@ FN src/check/constrain/constraint/builder.rs | impl ConstrBuilder | branch
//@@ REPLACE pin=eb97234c018a
//@@< if self.joined { $$ } else { $$ }
//@@> verif_inherited(&self.constraints, self.joined, self.branch_point)
    requires wf(*old(self)), old(self).branch_point >= 1,                        //# builder_has_a_set_and_a_branch_point [C03]
    ensures
        wf(*final(self)),                                                        //# builder_keeps_a_set [C03]
        extends(old(self).constraints@, final(self).constraints@), keeps(*old(self), *final(self)), //# a_new_branch_drops_nothing_from_the_existing_sets [C05,C06]
//@@ END
//@@ FN src/check/constrain/constraint/builder.rs | impl ConstrBuilder | add_constr_map
//@@ REPLACE pin=8a66a4f5c73c
//@@< for ($i, (_, _, $cs)) in enumerate(&mut self.constraints) { $$ }
//@@> verif_push_all(&mut self.constraints, constraint.clone(), self.branch_point, &mut lvls);
//@@ REPLACE
//@@< self.constraints[last_branch] .2 .push((constraint.clone(), self.branch_point));
//@@> verif_push_at(&mut self.constraints, last_branch, constraint.clone(), self.branch_point);
//@@ CLAIM before
//@@< let lvls = comma_delm(lvls);
//@@> assert(extends(old(self).constraints@, self.constraints@));  //# every_existing_set_is_extended_in_place [C05,C06]
//@@ CLAIM before
//@@< let lvls = comma_delm(lvls);
//@@> assert({ let gi: int = if old(self).joined { 0 } else { self.constraints@.len() - 1 }; self.constraints@[gi].2@.len() >= 1 && self.constraints@[gi].2@.last().0 == constraint });  //# the_stored_constraint_is_the_last_of_its_set [C05,C06]
//@@ HINT before
//@@< let lvls = comma_delm(lvls);
//@@> proof { lemma_extends_keeps(*old(self), *self); }
    requires wf(*old(self)),                                                     //# builder_has_a_set [C03]
    ensures
        wf(*final(self)),                                                        //# builder_keeps_a_set [C03]
        present(*final(self), if ignore_map { *constraint } else { mapped(*constraint, *var_map, old(self).var_mapping) }), //# the_constraint_is_recorded [C05,C06]
        extends(old(self).constraints@, final(self).constraints@), keeps(*old(self), *final(self)), //# nothing_recorded_is_dropped [C05,C06]
//@@ END
//@@ FN src/check/constrain/constraint/builder.rs | impl ConstrBuilder | add_constr
    requires wf(*old(self)),                                                     //# builder_has_a_set [C03]
    ensures
        wf(*final(self)), present(*final(self), mapped(*constraint, env.var_mapping, old(self).var_mapping)), //# the_constraint_is_recorded [C05,C06]
        keeps(*old(self), *final(self)),                                         //# nothing_recorded_is_dropped [C05,C06]
//@@ END
//@@ FN src/check/constrain/constraint/builder.rs | impl ConstrBuilder | add
    requires wf(*old(self)),                                                     //# builder_has_a_set [C03]
    ensures
        wf(*final(self)), present(*final(self), mapped(c_new(msg@, *parent, *child), env.var_mapping, old(self).var_mapping)), //# parent_child_constraint_is_recorded [C05,C06]
        keeps(*old(self), *final(self)),                                         //# nothing_recorded_is_dropped [C05,C06]
//@@ END
}

} // verus!

fn main() {}
