//! vxreplay — re-executes cases on the REAL mamba code (built from the working tree with
//! `--cfg mamba_verif`).  Output is line based so the Python driver needs no JSON crate here.
//!
//!   vxreplay lex <file>              tokens: idx|kind|sl|sc|el|ec|width|display(escaped)
//!   vxreplay spans <file>            C18 oracle on one input: every real token's span must cover exactly
//!                                    its spelling in the source, spans ordered, indents balanced, one Eof
//!   vxreplay relex                   bounded stand-in: every payload-free token kind (+ sample payloads)
//!                                    re-lexes from its canonical spelling to itself with width == len
//!   vxreplay pipeline <file> <0|1>   mamba_to_python with annotate off/on; prints OK/ERR + text
//!   vxreplay transpile <dir> <src|-> <target|->  transpile_dir(<dir>, src, target); prints OK|<out dir> or ERR|<n> (+ MSG| lines)
//!   vxreplay project <dir>            mamba_to_python on ALL *.mamba files of <dir> (sorted by name, path src/<name>) in ONE
//!                                     call; prints OK|<n> or ERR|<n> and one MSG|<escaped text> line per diagnostic
//!   vxreplay caret <op> <a> <b> <c>  CaretPos arithmetic on concrete integers (Kani counterexamples)
use std::env;
use std::fs;
use std::path::PathBuf;
use std::process::exit;

use mamba::common::position::{CaretPos, Position};
use mamba::parse::verif_hooks::{tokenize, Lex, Token};
use mamba::{mamba_to_python, PipelineArguments};

fn esc(s: &str) -> String {
    s.replace('\\', "\\\\").replace('\n', "\\n").replace('\r', "\\r").replace('|', "\\x7c")
}

fn kind(t: &Token) -> String {
    let d = format!("{t:?}");
    d.split(|c| c == '(' || c == ' ' || c == '{').next().unwrap_or("").to_string()
}

fn is_synth(t: &Token) -> bool {
    matches!(t, Token::NL | Token::Indent | Token::Dedent | Token::Eof)
}

fn cmd_lex(path: &str) -> i32 {
    let src = fs::read_to_string(path).expect("read");
    match tokenize(&src) {
        Ok(toks) => {
            for (i, l) in toks.iter().enumerate() {
                println!(
                    "{}|{}|{}|{}|{}|{}|{}|{}",
                    i,
                    kind(&l.token),
                    l.pos.start.line,
                    l.pos.start.pos,
                    l.pos.end.line,
                    l.pos.end.pos,
                    l.token.width(),
                    esc(&l.token.to_string())
                );
            }
            0
        }
        Err(e) => {
            println!("LEXERR|{}|{}|{}", e.pos.line, e.pos.pos, esc(&e.msg));
            0
        }
    }
}

/// the text of `src` between two 1-based (line, col) carets, end exclusive; None if outside the text
fn slice(src_lines: &[&str], s: CaretPos, e: CaretPos) -> Option<String> {
    if s.line == 0 || s.pos == 0 || e.line < s.line {
        return None;
    }
    let mut out = String::new();
    for ln in s.line..=e.line {
        let line: Vec<char> = src_lines.get(ln - 1)?.chars().collect();
        let from = if ln == s.line { s.pos - 1 } else { 0 };
        let to = if ln == e.line { e.pos.checked_sub(1)? } else { line.len() };
        if from > to || to > line.len() {
            return None;
        }
        out.extend(&line[from..to]);
        if ln != e.line {
            out.push('\n');
        }
    }
    Some(out)
}

fn check_spans(src: &str, toks: &[Lex], report: &mut Vec<String>) {
    // raw lines: a '\r' before the line break stays part of the line (it is a character of a multi-line
    // string token in a CRLF file; single-line tokens never reach it)
    let lines: Vec<&str> = src.split('\n').collect();
    let mut last_end: Option<CaretPos> = None;
    let (mut indents, mut dedents, mut eofs) = (0i64, 0i64, 0);
    for (i, l) in toks.iter().enumerate() {
        match l.token {
            Token::Indent => indents += 1,
            Token::Dedent => dedents += 1,
            Token::Eof => eofs += 1,
            _ => {}
        }
        if is_synth(&l.token) {
            continue;
        }
        let spelling = match &l.token {
            Token::DocStr(d) => format!("\"\"\"{d}\"\"\""),
            t => t.to_string(),
        };
        match slice(&lines, l.pos.start, l.pos.end) {
            Some(text) if text == spelling => {}
            Some(text) => report.push(format!(
                "token {i} {:?}: span {}:{}-{}:{} covers {:?}, spelling is {:?}",
                kind(&l.token), l.pos.start.line, l.pos.start.pos, l.pos.end.line, l.pos.end.pos, text, spelling
            )),
            None => report.push(format!(
                "token {i} {:?}: span {}:{}-{}:{} lies outside the source text",
                kind(&l.token), l.pos.start.line, l.pos.start.pos, l.pos.end.line, l.pos.end.pos
            )),
        }
        if let Some(e) = last_end {
            if l.pos.start < e {
                report.push(format!(
                    "token {i} {:?} starts at {}:{} before the previous token ends at {}:{}",
                    kind(&l.token), l.pos.start.line, l.pos.start.pos, e.line, e.pos
                ));
            }
        }
        last_end = Some(l.pos.end);
    }
    if indents != dedents {
        report.push(format!("{indents} Indent vs {dedents} Dedent tokens"));
    }
    if eofs != 1 || !matches!(toks.last().map(|l| &l.token), Some(Token::Eof)) {
        report.push(format!("{eofs} Eof tokens / stream does not end with Eof"));
    }
}

fn cmd_spans(path: &str) -> i32 {
    let src = fs::read_to_string(path).expect("read");
    match tokenize(&src) {
        Ok(toks) => {
            let mut rep = vec![];
            check_spans(&src, &toks, &mut rep);
            for r in &rep {
                println!("SPANFAIL|{}", esc(r));
            }
            println!("SPANS|{}|{}", toks.len(), rep.len());
            if rep.is_empty() { 0 } else { 1 }
        }
        Err(e) => {
            println!("LEXERR|{}|{}|{}", e.pos.line, e.pos.pos, esc(&e.msg));
            0
        }
    }
}

fn cmd_spansdir(dir: &str) -> i32 {
    let mut names: Vec<_> = fs::read_dir(dir).expect("dir").filter_map(|e| e.ok()).map(|e| e.path()).collect();
    names.sort();
    let mut bad = 0;
    for p in names {
        let src = match fs::read_to_string(&p) { Ok(s) => s, Err(_) => continue };
        println!("FILE|{}", p.file_name().unwrap().to_string_lossy());
        match std::panic::catch_unwind(|| tokenize(&src)) {
            Ok(Ok(toks)) => {
                let mut rep = vec![];
                check_spans(&src, &toks, &mut rep);
                for r in &rep {
                    println!("SPANFAIL|{}", esc(r));
                }
                if !rep.is_empty() { bad += 1; }
                println!("SPANS|{}|{}", toks.len(), rep.len());
            }
            Ok(Err(e)) => println!("LEXERR|{}|{}|{}", e.pos.line, e.pos.pos, esc(&e.msg)),
            Err(_) => { bad += 1; println!("PANIC|lexer panicked"); }
        }
    }
    println!("SPANSDIR|{}", bad);
    if bad == 0 { 0 } else { 1 }
}

fn s(x: &str) -> String {
    String::from(x)
}

fn all_tokens() -> Vec<Token> {
    use Token::*;
    vec![
        From, Type, Class, Pure, IsA, As, Import, Forward, Point, Comma, DoublePoint, Vararg, BSlash, Fin, Assign,
        AddAssign, SubAssign, MulAssign, DivAssign, PowAssign, BLShiftAssign, BRShiftAssign, Def, Range, RangeIncl,
        Slice, SliceIncl, Add, Sub, Mul, Div, FDiv, Pow, Mod, Sqrt, BAnd, BOr, BXOr, BOneCmpl, BLShift, BRShift, Ge,
        Geq, Le, Leq, Eq, Is, Neq, And, Or, Not, LRBrack, RRBrack, LSBrack, RSBrack, LCBrack, RCBrack, Ver, To, BTo,
        Underscore, Raise, When, While, For, In, If, Then, Match, Else, Do, Continue, Break, Ret, With, Question,
        Handle, Pass,
        // payload-carrying kinds, sample payloads (short / long / digits / mixed)
        Id(s("x")), Id(s("some_name_9")), Id(s("Abc")),
        Int(s("0")), Int(s("1234567890")),
        Real(s("1.5")), Real(s("10.25")),
        ENum(s("2"), s("3")), ENum(s("10"), s("22")), ENum(s("1.5"), s("7")),
        Str(s(""), vec![]), Str(s("abc"), vec![]), Str(s("a b c"), vec![]),
        Comment(s("")), Comment(s(" a comment")),
    ]
}

fn cmd_relex() -> i32 {
    let mut bad = 0;
    let toks = all_tokens();
    for t in &toks {
        let text = t.to_string();
        let res = tokenize(&text);
        let ok = match &res {
            Ok(v) => {
                v.len() == 2
                    && Token::same_type(&v[0].token, t)
                    && v[0].token == *t
                    && v[1].token == Token::Eof
                    && v[0].pos.start == CaretPos::new(1, 1)
                    && v[0].pos.end == CaretPos::new(1, 1 + text.chars().count())
                    && t.width() == text.chars().count()
            }
            Err(_) => false,
        };
        if !ok {
            bad += 1;
            let got = match &res {
                Ok(v) => v
                    .iter()
                    .map(|l| format!("{}@{}:{}-{}:{}", kind(&l.token), l.pos.start.line, l.pos.start.pos, l.pos.end.line, l.pos.end.pos))
                    .collect::<Vec<_>>()
                    .join(","),
                Err(e) => format!("LexErr {}", e.msg),
            };
            println!("RELEXFAIL|{}|{}|width={}|{}", kind(t), esc(&text), t.width(), esc(&got));
        }
    }
    println!("RELEX|{}|{}", toks.len(), bad);
    if bad == 0 { 0 } else { 1 }
}

fn cmd_pipeline(path: &str, annotate: bool) -> i32 {
    let src = fs::read_to_string(path).expect("read");
    let args = PipelineArguments { annotate };
    match mamba_to_python(&[(src, Some(PathBuf::from("replay.mamba")))], &PathBuf::from(""), &args) {
        Ok(v) => {
            println!("OK");
            for x in v {
                println!("{x}");
            }
        }
        Err(v) => {
            println!("ERR");
            for x in v {
                println!("{x}");
            }
        }
    }
    0
}

fn cmd_project(dir: &str) -> i32 {
    let mut names: Vec<String> = fs::read_dir(dir)
        .expect("read_dir")
        .filter_map(|e| e.ok())
        .map(|e| e.file_name().to_string_lossy().to_string())
        .filter(|n| n.ends_with(".mamba"))
        .collect();
    names.sort();
    let pairs: Vec<(String, Option<PathBuf>)> = names
        .iter()
        .map(|n| (fs::read_to_string(PathBuf::from(dir).join(n)).expect("read"), Some(PathBuf::from("src").join(n))))
        .collect();
    let args = PipelineArguments { annotate: false };
    match mamba_to_python(&pairs, &PathBuf::from(""), &args) {
        Ok(v) => println!("OK|{}", v.len()),
        Err(v) => {
            println!("ERR|{}", v.len());
            for x in v {
                println!("MSG|{}", esc(&x));
            }
        }
    }
    0
}

fn cmd_transpile(dir: &str, src: &str, target: &str) -> i32 {
    let src = if src == "-" { None } else { Some(src) };
    let target = if target == "-" { None } else { Some(target) };
    match mamba::transpile_dir(std::path::Path::new(dir), src, target, &mamba::Arguments { annotate: false }) {
        Ok(p) => println!("OK|{}", p.display()),
        Err(v) => {
            println!("ERR|{}", v.len());
            for x in v {
                println!("MSG|{}", esc(&x));
            }
        }
    }
    0
}

fn cmd_caret(op: &str, v: &[usize]) -> i32 {
    let (a, b, c) = (v[0], v[1], *v.get(2).unwrap_or(&0));
    if op == "union" {
        let r = Position::new(CaretPos::new(v[0], v[1]), CaretPos::new(v[2], v[3]))
            .union(Position::new(CaretPos::new(v[4], v[5]), CaretPos::new(v[6], v[7])));
        println!("POSITION|{}|{}|{}|{}", r.start.line, r.start.pos, r.end.line, r.end.pos);
        return 0;
    }
    if op == "get_width" {
        let r = Position::new(CaretPos::new(v[0], v[1]), CaretPos::new(v[2], v[3])).get_width();
        println!("WIDTH|{}", r);
        return 0;
    }
    let p = CaretPos::new(a, b);
    let r = match op {
        "offset_line" => p.offset_line(c),
        "offset_pos" => p.offset_pos(c),
        "newline" => p.newline(),
        _ => {
            println!("unknown op");
            return 2;
        }
    };
    println!("CARET|{}|{}", r.line, r.pos);
    0
}

fn main() {
    let a: Vec<String> = env::args().collect();
    let rc = match a.get(1).map(|s| s.as_str()) {
        Some("lex") => cmd_lex(&a[2]),
        Some("spans") => cmd_spans(&a[2]),
        Some("relex") => cmd_relex(),
        Some("spansdir") => cmd_spansdir(&a[2]),
        Some("pipeline") => cmd_pipeline(&a[2], a.get(3).map_or(false, |x| x == "1")),
        Some("project") => cmd_project(&a[2]),
        Some("transpile") => cmd_transpile(&a[2], &a[3], &a[4]),
        Some("caret") => {
            let v: Vec<usize> = a[3..].iter().map(|x| x.parse().unwrap()).collect();
            cmd_caret(&a[2], &v)
        }
        _ => {
            eprintln!("usage: vxreplay lex|spans|relex|pipeline|caret ...");
            2
        }
    };
    let _ = Position::invisible();
    exit(rc);
}
