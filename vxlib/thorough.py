"""Thorough tier: proof stability and contract-adequacy self test (deliberate breakages of the extracted text)."""
import concurrent.futures as cf
import json
import os
import shutil

from . import driver, gen, verus


def _stability(uname, seed):
    """re-verify with halved rlimit and three seeds; a proof that flips is unstable"""
    tpl = os.path.join(driver.CONTRACTS, uname.lower() + ".vx.rs")
    unit = gen.expand(tpl, driver.REPO)
    unit.gen_path = os.path.join(driver.BUILD, uname.lower() + "_stab_%d.rs" % os.getpid())
    with open(unit.gen_path, "w") as f:
        f.write(unit.text())
    runs = []
    for i in range(3):
        half = max(1, unit.rlimit // 2)
        for attempt in range(3):
            r = verus.run_verus(unit.gen_path, ["--rlimit", str(half), "--smt-option", "smt.random_seed=%d" % (seed + i + 1)])
            s = verus.summarize(r)
            # a run that produced no verdict at all (the verifier did not start / was killed under load) says nothing about
            # the proof: try again, and keep the tool error visible if it persists
            if not (s["tool_error"] and s["verified"] == 0 and s["errors"] == 0):
                break
        runs.append({"seed": seed + i + 1, "rlimit": half, "ok": s["ok"], "verified": s["verified"], "errors": s["errors"],
                     "smt_ms": s["smt_ms"], "tool_error": s["tool_error"]})
    try:
        os.remove(unit.gen_path)
    except OSError:
        pass
    return runs


def _mutant(idx, m, tag=""):
    """apply one find/replace to a scratch copy of the file and verify the unit against it"""
    root = os.path.join(driver.BUILD, "selftest", "%s_m%d_%d" % (tag, idx, os.getpid()))
    shutil.rmtree(root, ignore_errors=True)
    # scratch tree = symlinks to the real files except the mutated one
    src = os.path.join(driver.REPO, m["file"])
    with open(src, encoding="utf-8") as f:
        text = f.read()
    if text.count(m["find"]) < 1:
        return {"mutant": idx, "status": "stale", "detail": "pattern not found in %s" % m["file"]}
    text = text.replace(m["find"], m["replace"], 1)
    for dp, dn, fns in os.walk(os.path.join(driver.REPO, "src")):
        rel = os.path.relpath(dp, driver.REPO)
        os.makedirs(os.path.join(root, rel), exist_ok=True)
        for fn in fns:
            if fn.endswith(".rs"):
                a, b = os.path.join(dp, fn), os.path.join(root, rel, fn)
                if os.path.join(rel, fn) == m["file"]:
                    with open(b, "w", encoding="utf-8") as f:
                        f.write(text)
                else:
                    os.symlink(a, b)
    tpl = os.path.join(driver.CONTRACTS, m["unit"] + ".vx.rs")
    try:
        gen.clear_cache()
        unit = gen.expand(tpl, root)
    except gen.GenError as e:
        shutil.rmtree(root, ignore_errors=True)
        return {"mutant": idx, "status": "undecided", "detail": "extraction: " + str(e)[:200]}
    unit.gen_path = os.path.join(driver.BUILD, "selftest_%s_m%d.rs" % (tag.lower(), idx))
    with open(unit.gen_path, "w") as f:
        f.write(unit.text())
    r = verus.run_verus(unit.gen_path, ["--multiple-errors", "5", "--rlimit", str(unit.rlimit)])
    s = verus.summarize(r)
    fl, und = verus.classify(r, unit)
    shutil.rmtree(root, ignore_errors=True)
    try:
        os.remove(unit.gen_path)
    except OSError:
        pass
    labels = [(f.get("label") or f["kind"]) for f in fl]
    killed = any(m["kills"] in (l or "") for l in labels)
    # a function that could not be extracted (lost anchor, changed pin) is an assumed stub: the check would be undecided
    lost = list(unit.extract_failed.keys()) + list(unit.hints_lost.keys())
    if s["tool_error"]:
        return {"mutant": idx, "status": "undecided", "detail": s["tool_error"][:200]}
    if killed:
        st = "killed"
    elif fl:
        st = "killed-by-other"
    elif und or not s["ok"] or lost:
        # only scaffolding (e.g. a loop invariant that carries the property) fails: the check would exit 2
        # (undecided) on this change — flagged, never a silent pass, but not a VIOLATION either
        st = "flagged-undecided"
    else:
        st = "SURVIVED"
    return {"mutant": idx, "status": st, "expected": m["kills"], "failed": sorted(set(labels))[:6],
            "scaffold_failures": [u["message"] for u in und][:3]}


def run(pid, cfg, results, seed):
    info = {"stability": {}, "selftest": []}
    undecided = []
    units = [u.lower() for u in cfg["units"]]
    # the lexer unit also carries the POS functions; `pos` mutants are decided by whichever unit includes them
    with open(os.path.join(driver.VERIF, "selftest", "mutants.json")) as f:
        muts = json.load(f)
    mine = []
    for i, m in enumerate(muts):
        u = m["unit"]
        if u in units or (u == "pos" and ("lex" in units or "render" in units)):
            mm = dict(m)
            if u == "pos":
                mm["unit"] = "lex" if "lex" in units else "render"
            mine.append((i, mm))
    with cf.ThreadPoolExecutor(max_workers=8) as ex:
        stab = {u: ex.submit(_stability, u, seed) for u in units}
        # vacuity, second line of defence (see driver.sat_unit / driver.probe_unit): every ASSUMED contract must be
        # satisfiable on its own, and every statement of every contracted function must be reachable for the verifier
        sat = {u: ex.submit(driver.sat_unit, u, "_%s_%d" % (pid.lower(), os.getpid())) for u in units}
        reach = {u: ex.submit(driver.probe_unit, u, "_%s_%d" % (pid.lower(), os.getpid())) for u in units}
        mres = [ex.submit(_mutant, i, m, pid) for (i, m) in mine]
        info["assumed_contract_probes"], info["reachability_probes"] = {}, {}
        for u, fu in sat.items():
            r = fu.result()
            info["assumed_contract_probes"][u.upper()] = {"ran": r["ran"], "probes": r["probes"], "skipped": r["skipped"],
                                                          "unsatisfiable": r["unsatisfiable"], "note": r["note"], "cmd": r.get("cmd")}
            if not r["ran"]:
                undecided.append("%s: assumed-contract probes did not run: %s" % (u.upper(), r["note"]))
            for x in r["unsatisfiable"]:
                undecided.append("%s: the ASSUMED contract of %s (%s) is unsatisfiable: everything after a call of it verifies vacuously" % (
                    u.upper(), x["fn"], x["in"]))
        for u, fu in reach.items():
            r = fu.result()
            bad = [x for x in r["unreachable"] if not x.get("allowed")]
            info["reachability_probes"][u.upper()] = {"ran": r["ran"], "probes": r["probes"], "unreachable": r["unreachable"],
                                                      "functions_skipped_for_rlimit": r["skipped_functions"], "note": r["note"], "cmd": r.get("cmd")}
            if not r["ran"]:
                undecided.append("%s: reachability probes did not run: %s" % (u.upper(), r["note"]))
            for x in bad:
                undecided.append("%s: the verifier considers %s:%d (after `%s`, in %s) unreachable: contradictory assumptions in front of it or dead code not listed in contracts/dead_points.json" % (
                    u.upper(), x["file"], x["line"], x["text"], x["fn"]))
        for tmp in os.listdir(driver.BUILD):
            if tmp.endswith("_%s_%d_sat.rs" % (pid.lower(), os.getpid())) or tmp.endswith("_%s_%d_probe.rs" % (pid.lower(), os.getpid())):
                try:
                    os.remove(os.path.join(driver.BUILD, tmp))
                except OSError:
                    pass
        for u, fu in stab.items():
            runs = fu.result()
            info["stability"][u.upper()] = runs
            if not all(r["ok"] for r in runs):
                undecided.append("%s: proof is unstable under halved rlimit / other seeds: %s" % (u.upper(), runs))
        for fu in mres:
            r = fu.result()
            info["selftest"].append(r)
            if r["status"] == "SURVIVED":
                undecided.append("selftest mutant %d survived (expected to fail %s): the contract is too weak" % (r["mutant"], r.get("expected")))
            elif r["status"] in ("stale", "undecided"):
                undecided.append("selftest mutant %d is %s: %s" % (r["mutant"], r["status"], r.get("detail")))
    info["selftest_killed"] = len([r for r in info["selftest"] if r["status"].startswith("killed")])
    info["selftest_flagged_undecided"] = len([r for r in info["selftest"] if r["status"] == "flagged-undecided"])
    info["selftest_total"] = len(info["selftest"])
    info["undecided"] = undecided
    return info
