def run(pid, cfg, results, seed):
    return {}
