"""Run Verus on a generated unit file and classify its diagnostics."""
import json
import os
import re
import subprocess
import time

VERUS = os.environ.get("VERIF_VERUS", "verus")


def run_verus(path, extra=(), timeout=900):
    cmd = [VERUS, os.path.basename(path), "--error-format=json", "--output-json", "--time"] + list(extra)
    t0 = time.time()
    try:
        p = subprocess.run(cmd, cwd=os.path.dirname(path), capture_output=True, text=True, timeout=timeout)
        rc, out, err = p.returncode, p.stdout, p.stderr
    except subprocess.TimeoutExpired as e:
        rc, out, err = 124, e.stdout or "", (e.stderr or "") + "\nTIMEOUT"
        if isinstance(out, bytes):
            out = out.decode("utf-8", "replace")
        if isinstance(err, bytes):
            err = err.decode("utf-8", "replace")
    wall = time.time() - t0
    res = {"cmd": " ".join(cmd), "rc": rc, "wall_s": round(wall, 2), "diags": [], "raw_err": err, "json": None}
    for line in err.splitlines():
        line = line.strip()
        if line.startswith("{"):
            try:
                res["diags"].append(json.loads(line))
            except ValueError:
                pass
    # stdout: JSON object (maybe preceded by text)
    k = out.find("{")
    if k >= 0:
        try:
            res["json"] = json.loads(out[k:])
        except ValueError:
            res["json"] = None
    return res


def summarize(res):
    """-> dict(functions=[{function, mode, success, time_us, rlimit}], verified, errors, ok, tool_error)"""
    j = res["json"] or {}
    vr = j.get("verification-results", {})
    funcs = []
    try:
        for m in j["times-ms"]["smt"]["smt-run-module-times"]:
            for f in m.get("function-breakdown", []):
                funcs.append({"function": f["function"], "mode": f.get("mode:", f.get("mode")),
                              "success": f["success"], "time_us": f.get("time-micros", 0), "rlimit": f.get("rlimit", 0)})
    except (KeyError, TypeError):
        pass
    smt_ms = 0
    try:
        smt_ms = j["times-ms"]["smt"]["smt-run"]
    except (KeyError, TypeError):
        pass
    tool_error = None
    if not vr:
        tool_error = "no verification-results (rc=%s)" % res["rc"]
    elif vr.get("encountered-vir-error"):
        tool_error = "VIR error (construct outside the Verus subset)"
    else:
        for d in res["diags"]:
            if d.get("level") == "error" and d.get("code"):
                tool_error = "rustc error %s: %s" % (d["code"].get("code"), d["message"])
                break
    return {"functions": funcs, "verified": vr.get("verified", 0), "errors": vr.get("errors", 0),
            "ok": bool(vr.get("success")), "tool_error": tool_error, "smt_ms": smt_ms,
            "total_ms": (j.get("times-ms") or {}).get("total", 0)}


KIND_PATTERNS = [
    (re.compile(r"postcondition not satisfied|unable to prove post-condition of closure"), "post"),
    (re.compile(r"precondition not satisfied"), "pre"),
    (re.compile(r"arithmetic underflow/overflow"), "overflow"),
    (re.compile(r"division by zero"), "divzero"),
    (re.compile(r"assertion failed"), "assert"),
    (re.compile(r"invariant not satisfied"), "invariant"),
    (re.compile(r"must have a decreases clause"), "other"),
    (re.compile(r"could not prove termination|decreases"), "decreases"),
    (re.compile(r"unreachable|panic"), "panic"),
    (re.compile(r"recommendation not met|recommends"), "recommends"),
    (re.compile(r"rlimit|Resource limit|timed? ?out"), "rlimit"),
]


def classify(res, unit):
    """Turn Verus error diagnostics into obligation failures.

    Returns (failures, undecided) where failures are contract-kind failures and
    undecided are scaffold / tool level problems."""
    failures, undecided = [], []
    for d in res["diags"]:
        if d.get("level") != "error":
            continue
        msg = d.get("message", "")
        if msg.startswith("aborting due to"):
            continue
        kind = "other"
        for pat, k in KIND_PATTERNS:
            if pat.search(msg):
                kind = k
                break
        spans = d.get("spans", [])
        prim = [s for s in spans if s.get("is_primary")]
        sec = [s for s in spans if not s.get("is_primary")]
        here = unit_file = os.path.basename(unit.gen_path)
        o_prim = None
        for s in prim:
            if os.path.basename(s["file_name"]) == unit_file:
                o_prim = unit.locate(s["byte_start"])
                o_prim["gen_line"] = s["line_start"]
                break
        o_sec = []
        for s in sec:
            if os.path.basename(s["file_name"]) == unit_file:
                o = unit.locate(s["byte_start"])
                o["span_label"] = s.get("label")
                o["gen_line"] = s["line_start"]
                o["text"] = (s.get("text") or [{}])[0].get("text", "").strip()
                o_sec.append(o)
            else:
                o_sec.append({"kind": "external", "file": s["file_name"], "span_label": s.get("label"),
                              "text": (s.get("text") or [{}])[0].get("text", "").strip()})
        rec = {"kind": kind, "message": msg, "rendered": d.get("rendered", ""), "primary": o_prim, "secondary": o_sec}
        if d.get("code"):
            rec["tool"] = True
            undecided.append(rec)
            continue
        if kind == "invariant" and o_prim and o_prim.get("kind") == "contract" and o_prim.get("claim"):
            # a labelled loop-invariant conjunct (INVCLAIM): the property in inductive form
            rec["fn"], rec["label"], rec["props"] = o_prim["fn"], o_prim.get("label"), o_prim.get("props", [])
            failures.append(rec)
            continue
        if kind in ("rlimit", "other", "recommends", "invariant"):
            # not an obligation failure: resource limit, unsupported construct, tool message
            rec["tool"] = kind != "rlimit"
            undecided.append(rec)
            continue
        if o_prim is None:
            # primary span outside the generated file (e.g. in vstd): look at secondary
            cands = [o for o in o_sec if o.get("kind") in ("repo", "edit", "auto", "sig", "contract")]
            if cands:
                o_prim = cands[0]
                rec["primary"] = o_prim
            else:
                undecided.append(rec)
                continue
        ok = o_prim["kind"]
        if kind == "assert" and ok == "contract" and o_prim.get("claim"):
            rec["fn"], rec["label"], rec["props"] = o_prim["fn"], o_prim.get("label"), o_prim.get("props", [])
            failures.append(rec)
            continue
        if kind == "post":
            # primary = failed ensures clause
            if ok == "contract":
                rec["fn"], rec["label"], rec["props"] = o_prim["fn"], o_prim.get("label"), o_prim.get("props", [])
                # where in the body it fails
                for o in o_sec:
                    if o.get("kind") in ("repo", "edit", "auto"):
                        rec["at"] = o
                failures.append(rec)
            else:
                undecided.append(rec)
            continue
        if ok in ("repo", "edit", "auto", "sig"):
            rec["fn"] = o_prim["fn"]
            rec["at"] = o_prim
            # failed precondition clause, if it is one of ours
            rec["label"], rec["props"] = None, []
            for o in o_sec:
                if o.get("kind") == "contract" and o.get("span_label", "") and "precondition" in o["span_label"]:
                    rec["label"] = "requires:%s::%s" % (o["fn"], o.get("label") or "?")
                    rec["props"] = o.get("props", [])
                elif o.get("kind") in ("external", "template") and o.get("span_label") and "precondition" in o["span_label"]:
                    rec["label"] = "requires:" + re.sub(r"\s+", " ", (o.get("text") or "vstd"))[:80]
            if rec["label"] is None:
                rec["label"] = kind
            failures.append(rec)
            continue
        undecided.append(rec)
    return failures, undecided
