"""Template expansion: /verif/contracts/<unit>.vx.rs + /repo sources -> one Verus file.

The template is Verus source with holes.  Holes are `//@@` directives:

  //@@ UNIT <NAME>
  //@@ TYPE <file> | <struct|enum|type> | <Name> [| pubfields]
        -> the item is copied byte for byte (attributes included); with `pubfields`
           private named fields get `pub ` prepended (nothing else changes).
  //@@ FN <file> | <impl header or free> | <name> [| as=<newname>] [| ret=<id>] [| props=C18,C03]
        <contract text: requires / ensures / decreases ...; a clause line may end
         with `//# <label> [C18,C03]`>
        //@@ OUTLINE | HAVOC | CLOSURE  [count=N]   (executable text replaced; listed in evidence)
        //@@<  <pattern tokens, matched whitespace-insensitively against the body>
        //@@>  <replacement text>
        //@@ HINT after|before             (scaffolding inserted; never classified as a contract)
        //@@<  <anchor tokens>
        //@@>  <text>
        //@@ LOOPINV                       (scaffolding inserted between loop header and `{`)
        //@@<  <loop header tokens>
        //@@>  <invariant/decreases text>
        //@@ INVCLAIM                      (a loop-invariant conjunct that IS the property in inductive form: part of the
        //@@<  <loop header tokens>          contract, labelled `//# label [Cxx]`; placed after a LOOPINV on the same loop;
        //@@>  <conjunct, //# label [Cxx]>    its failure is an obligation failure, other invariants stay scaffolding)
  //@@ END

Everything else in the template is passed through.  The body of each FN is copied byte
for byte from /repo except for (a) the directive edits above and (b) the automatic macro
rewrite (format!/write!/writeln!/log macros: argument expressions are kept and evaluated,
literal text and the formatter effect are dropped).
"""
import hashlib
import os
import re

from . import rustlex
from .rustlex import SourceFile, tokenize, match_close

FMT_STRING_MACROS = {"format"}
FMT_WRITE_MACROS = {"write", "writeln"}
LOG_MACROS = {"trace", "debug", "info", "warn", "error", "println", "eprintln"}


class GenError(Exception):
    """Anchor lost / construct outside subset: the check is undecided (exit 2)."""


class Seg:
    __slots__ = ("text", "kind", "info")

    def __init__(self, text, kind, info=None):
        self.text = text
        self.kind = kind      # template | contract | repo | edit | scaffold | auto | sig
        self.info = info or {}


class Unit:
    def __init__(self, name):
        self.name = name
        self.segs = []
        self.functions = []   # dicts
        self.types = []
        self.edits = []       # executable-text edits (outline/havoc/closure)
        self.macro_rewrites = []
        self.clauses = []     # contract clauses with labels
        self.count_only = None
        self.rlimit = 10      # Verus --rlimit for this unit (default 10)
        self.extract_failed = {}  # fn -> message: body could not be extracted; emitted as assumed stub
        self.hints_lost = {}  # fn -> [messages]: proof scaffolding whose anchor no longer exists
        self.probes = []      # reachability probes of the probe run (vacuity="probe")
        self.pins = []        # hashes of the text replaced by wildcard edits
        self.assume_pins = []        # hashes of /repo functions whose contract is ASSUMED (external stubs)
        self.assumption_changed = [] # messages: an assumed function changed
        self.template = None

    def text(self):
        return "".join(s.text for s in self.segs)

    def locate(self, byte_off):
        """Map a byte offset of the generated file to its origin."""
        pos = 0
        for s in self.segs:
            b = len(s.text.encode("utf-8"))
            if pos <= byte_off < pos + b:
                rel = len(s.text.encode("utf-8")[: byte_off - pos].decode("utf-8", "ignore"))
                o = {"kind": s.kind}
                o.update(s.info)
                if s.kind == "repo":
                    off = s.info["off"] + rel
                    o["repo_line"] = s.info["src"].count("\n", 0, off) + 1
                    o.pop("src", None)
                elif "tline" in s.info:
                    o["tline"] = s.info["tline"] + s.text.count("\n", 0, rel)
                return o
            pos += b
        return {"kind": "unknown"}


_srcs = {}
_apins = {}


def _assume_pins():
    p = os.path.join(os.path.dirname(os.path.dirname(os.path.abspath(__file__))), "contracts", "assume_pins.json")
    if "d" not in _apins:
        import json
        try:
            with open(p) as f:
                _apins["d"] = json.load(f)
        except (OSError, ValueError):
            _apins["d"] = {}
    return _apins["d"]



def load_src(repo, rel):
    key = (repo, rel)
    if key not in _srcs:
        p = os.path.join(repo, rel)
        if not os.path.exists(p):
            raise GenError("source file missing: %s" % rel)
        with open(p, encoding="utf-8") as f:
            txt = f.read()
        try:
            _srcs[key] = SourceFile(rel, txt)
        except rustlex.LexError as e:
            raise GenError("cannot tokenize %s: %s" % (rel, e))
    return _srcs[key]


def clear_cache():
    _srcs.clear()


# ----------------------------------------------------------------------------------------
def _split_args(toks, lo, hi):
    """split token range [lo,hi) at top-level commas -> list of (a,b) ranges"""
    res, depth, start = [], 0, lo
    for i in range(lo, hi):
        t = toks[i]
        if t.kind == "punct":
            if t.text in rustlex.OPEN:
                depth += 1
            elif t.text in rustlex.CLOSE:
                depth -= 1
            elif t.text == "," and depth == 0:
                res.append((start, i))
                start = i + 1
    if start < hi:
        res.append((start, hi))
    return res


class BodyEmitter:
    def __init__(self, unit, sf, fn_name, replace, insert, probe_after=None):
        self.u, self.sf, self.fn = unit, sf, fn_name
        self.replace = replace    # tok index -> (end_tok_exclusive, text, kind, tline)
        self.insert = insert      # tok index -> list of (text, tline)   (inserted before that token)
        self.probe_after = probe_after or set()   # token indices (`;` or the body's `{`) after which a reachability probe goes
        self.out = []

    def _probe(self, i):
        t = self.sf.toks[i]
        pid = len(self.u.probes)
        line = self.sf.text.count("\n", 0, t.start) + 1
        self.u.probes.append({"id": pid, "fn": self.fn, "file": self.sf.path, "line": line})
        self.out.append(Seg(" if verif_vac_probe() { assert(false); } ", "probe", {"fn": self.fn, "probe": pid, "repo_line": line}))

    def _verb(self, a, b):
        if b > a:
            self.out.append(Seg(self.sf.text[a:b], "repo", {"file": self.sf.path, "off": a, "src": self.sf.text,
                                                            "fn": self.fn}))

    def emit(self, lo, hi, cur):
        """emit tokens [lo,hi); cur = source offset already emitted; returns new cur"""
        toks = self.sf.toks
        i = lo
        while i < hi:
            t = toks[i]
            if i in self.insert:
                self._verb(cur, toks[i - 1].end if i > 0 else cur)
                cur = max(cur, toks[i - 1].end)
                for text, tline, dk in self.insert[i]:
                    if dk in ("CLAIM", "INVCLAIM"):
                        m = _LABEL.search(text)
                        lab = m.group(1) if m else None
                        props = [p for p in ((m.group(2) or "") if m else "").split(",") if p]
                        self.out.append(Seg(" " + text.split("//#")[0] + " ", "contract",
                                            {"fn": self.fn, "tline": tline, "label": lab, "props": props, "claim": True}))
                    else:
                        self.out.append(Seg(" " + text + " ", "scaffold", {"fn": self.fn, "tline": tline}))
            if i in self.replace:
                j, text, kind, tline = self.replace[i]
                self._verb(cur, t.start)
                info = {"fn": self.fn, "edit": kind, "tline": tline, "file": self.sf.path,
                        "repo_line": self.sf.text.count("\n", 0, t.start) + 1}
                parts = re.split(r"\x00(\d+):(\d+)\x00", text)
                k = 0
                while k < len(parts):
                    if parts[k]:
                        # a labelled clause inside a declared edit (`/*# label [Cxx] #*/` in front of it) is a contract clause
                        pos = 0
                        for mm in re.finditer(r"/\*#\s*([A-Za-z0-9_]+)\s*\[([^\]]*)\]\s*#\*/", parts[k]):
                            if mm.start() > pos:
                                self.out.append(Seg(parts[k][pos:mm.start()], "edit", info))
                            pos = mm.end()
                            # the clause runs up to the next top-level `,` `{` or end of the part
                            e = pos
                            depth = 0
                            while e < len(parts[k]):
                                c = parts[k][e]
                                if c in "([":
                                    depth += 1
                                elif c in ")]":
                                    depth -= 1
                                elif c in ",{" and depth == 0:
                                    break
                                elif c == ";" and depth == 0:   # a labelled statement (assert) ends with its `;`
                                    e += 1
                                    break
                                e += 1
                            props = [x for x in mm.group(2).split(",") if x]
                            self.out.append(Seg(parts[k][pos:e], "contract", {"fn": self.fn, "tline": tline, "label": mm.group(1),
                                                                             "props": props, "claim": True}))
                            self.u.clauses.append({"fn": self.fn, "label": mm.group(1), "props": props, "text": parts[k][pos:e].strip()})
                            pos = e
                        if pos < len(parts[k]):
                            self.out.append(Seg(parts[k][pos:], "edit", info))
                    if k + 2 < len(parts):
                        a0, a1 = int(parts[k + 1]), int(parts[k + 2])
                        if a1 > a0:
                            c2 = self.emit(a0, a1, toks[a0].start)
                            self._verb(c2, toks[a1 - 1].end)
                    k += 3
                cur = toks[j - 1].end
                i = j
                continue
            if i in self.probe_after:
                self._verb(cur, t.end)
                cur = max(cur, t.end)
                self._probe(i)
                i += 1
                continue
            if (t.kind == "id" and i + 2 < hi and toks[i + 1].text == "!" and toks[i + 2].text in ("(", "[", "{")
                    and t.text in FMT_STRING_MACROS | FMT_WRITE_MACROS | LOG_MACROS):
                close = match_close(toks, i + 2)
                args = _split_args(toks, i + 3, close)
                self._verb(cur, t.start)
                info = {"fn": self.fn, "file": self.sf.path,
                        "repo_line": self.sf.text.count("\n", 0, t.start) + 1, "macro": t.text}
                if t.text in FMT_WRITE_MACROS:
                    fmt_arg, rest = args[0], args[2:]
                else:
                    fmt_arg, rest = None, args[1:]
                self.out.append(Seg("{ ", "auto", info))
                kept = []
                for (a, b) in rest:
                    # named argument `x = expr`
                    if b - a >= 3 and toks[a].kind == "id" and toks[a + 1].text == "=":
                        a += 2
                    self.out.append(Seg("let _ = &(", "auto", info))
                    c2 = self.emit(a, b, toks[a].start)
                    self._verb(c2, toks[b - 1].end)
                    self.out.append(Seg("); ", "auto", info))
                    kept.append(self.sf.text[toks[a].start:toks[b - 1].end])
                if t.text in FMT_STRING_MACROS:
                    self.out.append(Seg("verif_opaque_string() }", "auto", info))
                elif t.text in FMT_WRITE_MACROS:
                    a, b = fmt_arg
                    ftxt = self.sf.text[toks[a].start:toks[b - 1].end]
                    self.out.append(Seg("verif_opaque_fmt(%s) }" % ftxt, "auto", info))
                else:
                    self.out.append(Seg("}", "auto", info))
                self.u.macro_rewrites.append({"fn": self.fn, "file": self.sf.path, "line": info["repo_line"],
                                              "macro": t.text + "!", "kept_args": kept})
                cur = toks[close].end
                i = close + 1
                continue
            i += 1
        return cur


def _probe_points(toks, ob, cb, replace):
    """token indices after which a reachability probe `if verif_vac_probe() { assert(false); }` is placed: the opening
    brace of the body and every statement-ending `;` whose innermost bracket is a `{` block (not a struct literal /
    match / closure-less expression context is not distinguished: a `;` only occurs in blocks), except after
    statements that leave (return / break / continue) and inside replaced token ranges or closures."""
    pts = {ob}
    skip_until = -1
    stack = []          # (bracket, index of first token of the current statement at this level)
    first = None
    closure_depth = []  # stack depths at which a closure body started
    i = ob
    while i <= cb:
        if i in replace:
            i = replace[i][0]
            continue
        t = toks[i]
        x = t.text
        if t.kind == "punct" and x in rustlex.OPEN:
            # a `{` right after `|...|` or `move |..|` starts a closure body: no probes inside
            is_closure = x == "{" and i > ob and toks[i - 1].text == "|"
            stack.append([x, None, bool(is_closure or (len(stack) > 0 and stack[-1][2]))])
        elif t.kind == "punct" and x in rustlex.CLOSE:
            if stack:
                stack.pop()
            if stack:
                # a `}` ends a block-like statement: next token starts a new statement
                if x == "}" and stack[-1][0] == "{":
                    stack[-1][1] = None
        elif stack:
            top = stack[-1]
            if top[0] == "{":
                if x == ";":
                    st = top[1]
                    leaving = st is not None and toks[st].text in ("return", "break", "continue")
                    if not top[2] and not leaving and len(stack) >= 1:
                        pts.add(i)
                    top[1] = None
                elif top[1] is None:
                    top[1] = i
        i += 1
    return pts


def _pattern_tokens(pat_text):
    """tokens of a pattern; `$name` is a metavariable standing for one identifier (rename-robust anchors);
    `$$` stands for any (possibly empty) bracket-balanced token sequence, matched non-greedily"""
    raw = tokenize(pat_text)
    out, i = [], 0
    while i < len(raw):
        if raw[i].text == "$" and i + 1 < len(raw) and raw[i + 1].text == "$":
            out.append(("*", None))
            i += 2
        elif raw[i].text == "$" and i + 1 < len(raw) and raw[i + 1].kind == "id":
            out.append(("$", raw[i + 1].text))
            i += 2
        else:
            out.append(("=", raw[i].text))
            i += 1
    return out


def _match_at(toks, i, hi, pat, k, b):
    """match pat[k:] at token index i; returns end index (exclusive) or None; b is updated in place"""
    while k < len(pat):
        kind, val = pat[k]
        if kind == "*":
            # non-greedy: try to match the rest after consuming 0.. tokens, staying bracket balanced
            depth, j = 0, i
            while True:
                if depth == 0:
                    b2 = dict(b)
                    e = _match_at(toks, j, hi, pat, k + 1, b2)
                    if e is not None:
                        b.clear()
                        b.update(b2)
                        # remember what the wildcard matched (token range), for `$$1`, `$$2`, ... in replacements
                        nwild = len([x for x in pat[:k + 1] if x[0] == "*"])
                        b["$$%d" % nwild] = (i, j)
                        return e
                if j >= hi:
                    return None
                x = toks[j].text
                if toks[j].kind == "punct":
                    if x in rustlex.OPEN:
                        depth += 1
                    elif x in rustlex.CLOSE:
                        depth -= 1
                        if depth < 0:
                            return None
                j += 1
        if i >= hi:
            return None
        t = toks[i]
        if kind == "=":
            if t.text != val:
                return None
        else:
            if t.kind != "id":
                return None
            if val in b:
                if b[val] != t.text:
                    return None
            else:
                b[val] = t.text
        i += 1
        k += 1
    return i


def _find_pattern(sf, lo, hi, pat_text, what, binds=None):
    """-> (hit start indices, pattern length of the FIRST hit, bindings of the first hit).  Metavariables already
    bound in `binds` must match the bound identifier.  Per-hit (end, bindings) in _find_pattern.last_*"""
    pat = _pattern_tokens(pat_text)
    if not pat:
        raise GenError("%s: empty pattern" % what)
    toks = sf.toks
    hits, first_b, all_b, ends = [], None, [], []
    for i in range(lo, hi):
        if pat[0][0] == "=" and toks[i].text != pat[0][1]:
            continue
        b = dict(binds or {})
        e = _match_at(toks, i, hi, pat, 0, b)
        if e is not None and e > i:
            for key in list(b.keys()):
                if key.startswith("$$") and not key.endswith("@") and isinstance(b[key], tuple):
                    a0, a1 = b[key]
                    b[key + "@"] = (a0, a1)     # token range, for `deep` edits (the captured text is re-emitted through the emitter)
                    b[key] = sf.text[toks[a0].start:toks[a1 - 1].end] if a1 > a0 else ""
            hits.append(i)
            all_b.append(b)
            ends.append(e)
            if first_b is None:
                first_b = b
    _find_pattern.last_bindings = dict(zip(hits, all_b))
    _find_pattern.last_ends = dict(zip(hits, ends))
    n = (ends[0] - hits[0]) if hits else len(pat)
    return hits, n, (first_b or {})


def _subst(text, binds, deep=False):
    if deep:
        # `$$N` -> marker carrying the token range: the emitter re-emits that range (nested declared edits and the
        # automatic macro rewrite apply inside the carried text)
        text = re.sub(r"\$\$([0-9]+)", lambda m: ("\x00%d:%d\x00" % binds["$$" + m.group(1) + "@"]) if ("$$" + m.group(1) + "@") in binds else m.group(0), text)
    text = re.sub(r"\$\$([0-9]+)", lambda m: binds.get("$$" + m.group(1), m.group(0)), text)
    return re.sub(r"\$([A-Za-z_][A-Za-z0-9_]*)", lambda m: binds.get(m.group(1), m.group(0)), text)


import threading
_EXPAND_LOCK = threading.RLock()


def expand(template_path, repo, vacuity=False):
    """thread-safe entry: template expansion keeps per-call scratch state on module-level function attributes
    (_find_pattern.last_bindings / last_ends), and the driver expands units from several threads — two concurrent
    expansions could read each other's bindings (seen once as a spurious rustc error in an extracted file).  Expansion
    is cheap compared with verification, so it is simply serialised."""
    with _EXPAND_LOCK:
        return _expand(template_path, repo, vacuity)


def _expand(template_path, repo, vacuity=False):
    """Expand a unit template.  Returns Unit."""
    tlines, tmap = _preprocess(template_path, 0)
    unit = Unit(os.path.basename(template_path).split(".")[0].upper())
    unit.template = template_path
    unit.tmap = tmap
    i = 0
    buf, buf_line = [], 1

    probe_decl = [vacuity == "probe"]

    def flush():
        nonlocal buf, buf_line
        if buf:
            text = "\n".join(buf) + "\n"
            if probe_decl[0] and re.search(r"^verus!\s*\{\s*$", text, re.M):
                # the arbitrary boolean guarding each reachability probe
                text = re.sub(r"^(verus!\s*\{\s*)$", r"\1\n#[verifier::external_body] pub fn verif_vac_probe() -> bool { unimplemented!() }",
                              text, count=1, flags=re.M)
                probe_decl[0] = False
            unit.segs.append(Seg(text, "template", {"tline": buf_line}))
        buf = []

    while i < len(tlines):
        line = tlines[i]
        s = line.strip()
        if not s.startswith("//@@"):
            if not buf:
                buf_line = i + 1
            buf.append(line)
            i += 1
            continue
        flush()
        d = s[4:].strip()
        if d.startswith("UNIT"):
            unit.name = d.split()[1]
            i += 1
            continue
        if d.startswith("COUNTONLY"):
            # this unit re-verifies shared text; only the listed functions are counted as its obligations
            unit.count_only = set(d.split()[1:])
            i += 1
            continue
        if d.startswith("RLIMIT"):
            unit.rlimit = int(d.split()[1])
            i += 1
            continue
        if d.startswith("ASSUME"):
            # `//@@ ASSUME file | scope | name`: the external stub / spec function next to this line states an ASSUMED contract
            # of that /repo function, written against one version of its body: the body is pinned by a hash
            # (contracts/assume_pins.json, tools/setpins.py).  A changed body => the assumption must be reviewed => undecided.
            parts = [p.strip() for p in d[6:].split("|")]
            rel, scope, name = parts[0], parts[1], parts[2]
            key = "%s | %s | %s" % (rel, scope, name)
            try:
                sf = load_src(repo, rel)
                loc = sf.find_fn(scope, name)
                body = " ".join(x.text for x in sf.toks[loc["fn"]:loc["close"] + 1] if x.kind not in ("comment", "ws"))
                pin = hashlib.sha256(body.encode()).hexdigest()[:12]
            except (KeyError, GenError) as e:
                pin = None
            want = _assume_pins().get(key)
            unit.assume_pins.append({"key": key, "pin": pin, "declared": want})
            if not os.environ.get("VERIF_SETPINS"):
                if pin is None:
                    unit.assumption_changed.append("%s: the function an assumed contract describes no longer exists" % key)
                elif want is None:
                    raise GenError("%s: ASSUME without a pin in contracts/assume_pins.json: review the assumed contract, then run tools/setpins.py" % key)
                elif want != pin:
                    unit.assumption_changed.append("%s: the body changed since its ASSUMED contract was reviewed (pin %s, now %s)" % (key, want, pin))
            i += 1
            continue
        if d.startswith("TYPE") or d.startswith("CONST"):
            if d.startswith("CONST"):
                d = "TYPE " + d[5:].split("|")[0] + "| const |" + d[5:].split("|")[1]
            parts = [p.strip() for p in d[4:].split("|")]
            rel, kind, name = parts[0], parts[1], parts[2]
            opts = parts[3:]
            sf = load_src(repo, rel)
            try:
                st, kw, en = sf.find_type(kind, name)
            except KeyError as e:
                raise GenError(str(e))
            a, b = sf.toks[st].start, sf.toks[en].end
            text = sf.text[a:b]
            if "pubfields" in opts:
                text = _pubfields(sf, kw, en, a)
                text = re.sub(r"\bpub\s*\(\s*(super|crate|self|in\s+[^)]*)\s*\)", "pub", text)
            for o in opts:
                if o.startswith("retype="):
                    # a field whose type is outside the subset is given an opaque stand-in type (declared edit)
                    fld, newty = o.split("=", 1)[1].split(":", 1)
                    tt = tokenize(text)
                    done = False
                    for k in range(len(tt) - 2):
                        if tt[k].kind == "id" and tt[k].text == fld.strip() and tt[k + 1].text == ":":
                            depth, e = 0, k + 2
                            while e < len(tt):
                                x = tt[e].text
                                if x in ("<", "(", "["):
                                    depth += 1
                                elif x in (">", ")", "]"):
                                    depth -= 1
                                elif x == ">>":
                                    depth -= 2
                                elif (x == "," or x == "}") and depth == 0:
                                    break
                                e += 1
                            text = text[:tt[k + 2].start] + newty.strip() + text[tt[e - 1].end:]
                            done = True
                            break
                    if not done:
                        raise GenError("%s: field %s not found in %s %s" % (rel, fld, kind, name))
                if o.startswith("strip_derive="):
                    # a derive whose hand-written companion impl is not part of the extracted file
                    for d_ in o.split("=", 1)[1].split(","):
                        text = re.sub(r"(#\[derive\([^)]*?)\b%s\b\s*,?\s*" % re.escape(d_.strip()), r"\1", text, count=1)
                    text = re.sub(r",\s*\)\]", ")]", text, count=1)
            if kind == "const":
                # `const X: &str` is implicitly 'static; Verus (which turns consts into functions) wants it spelled out
                text = re.sub(r":\s*&\s*str\b", ": &'static str", text, count=1)
            unit.segs.append(Seg(text + "\n", "repo" if not opts else "edit",
                                 {"file": rel, "off": a, "src": sf.text, "fn": kind + " " + name,
                                  "edit": "pubfields", "tline": i + 1}))
            unit.types.append({"file": rel, "item": kind + " " + name, "line": sf.text.count("\n", 0, a) + 1,
                               "sha256": hashlib.sha256(sf.text[a:b].encode()).hexdigest()[:16],
                               "pubfields": "pubfields" in opts})
            i += 1
            continue
        if d.startswith("FN"):
            # attributes written in the template right in front of the directive (e.g. loop_isolation(false)) belong
            # to the function: the vacuity / probe copy must carry them too
            fn_attrs = []
            q = i - 1
            while q >= 0 and tlines[q].strip().startswith("#[verifier::"):
                fn_attrs.insert(0, tlines[q].strip())
                q -= 1
            parts = [p.strip() for p in d[2:].split("|")]
            rel, scope, name = parts[0], parts[1], parts[2]
            opts = dict(p.split("=", 1) for p in parts[3:] if "=" in p)
            flags = [p for p in parts[3:] if "=" not in p]
            i += 1
            contract, directives = [], []
            while i < len(tlines) and not tlines[i].strip().startswith("//@@ END"):
                ls = tlines[i].strip()
                if ls.startswith("//@@<") or ls.startswith("//@@>"):
                    raise GenError("%s:%d: stray pattern line" % (template_path, i + 1))
                if ls.startswith("//@@"):
                    head = ls[4:].split()
                    dk, dopts = head[0], head[1:]
                    tline = i + 1
                    i += 1
                    pat, rep = [], []
                    while i < len(tlines) and tlines[i].strip().startswith("//@@<"):
                        pat.append(tlines[i].strip()[5:])
                        i += 1
                    while i < len(tlines) and tlines[i].strip().startswith("//@@>"):
                        rep.append(tlines[i].strip()[5:])
                        i += 1
                    directives.append((dk, dopts, "\n".join(pat), "\n".join(rep), tline))
                    continue
                contract.append((tlines[i], i + 1))
                i += 1
            if i >= len(tlines):
                raise GenError("%s: FN %s without END" % (template_path, name))
            i += 1  # skip END
            mark = len(unit.segs)
            nf, ne, nm, nc = len(unit.functions), len(unit.edits), len(unit.macro_rewrites), len(unit.clauses)
            try:
                _emit_fn(unit, repo, rel, scope, name, opts, flags, contract, directives, False, template_path)
            except GenError as e:
                if "anchor lost" not in str(e):
                    raise
                # a hard anchor of THIS function is gone: the function alone becomes an assumed stub (its own
                # obligations undecided); the rest of the unit is still verified against its contract
                del unit.segs[mark:]
                del unit.functions[nf:], unit.edits[ne:], unit.macro_rewrites[nm:], unit.clauses[nc:]
                _emit_fn(unit, repo, rel, scope, name, opts, flags + ["stub"], contract, [d for d in directives if d[0] == "SIG"], False, template_path)
                qual_ = (scope + "::" if scope != "free" else "") + name
                unit.extract_failed[qual_] = str(e)
                continue
            if vacuity and "kf" not in opts:
                # vacuity probe: a copy of the function (calling the *real* callees) with `ensures false`
                vopts = dict(opts)
                vopts["as"] = opts.get("as", name) + "__vac"
                if fn_attrs:
                    unit.segs.append(Seg("\n".join(fn_attrs) + "\n", "template", {"tline": 0}))
                _emit_fn(unit, repo, rel, scope, name, vopts, flags + ["vac_copy"], contract, directives, vacuity,
                         template_path)
            continue
        raise GenError("%s:%d: unknown directive %s" % (template_path, i + 1, d))
    flush()
    return unit


def _pubfields(sf, kw, en, base_off):
    """copy struct text with `pub ` added to private named fields at depth 1"""
    toks = sf.toks
    # find '{'
    j = kw
    while toks[j].text not in ("{", ";", "("):
        j += 1
    if toks[j].text != "{":
        return sf.text[base_off:toks[en].end]
    ins = []
    depth = 0
    expect_field = True
    k = j
    while k <= en:
        t = toks[k]
        if t.text in rustlex.OPEN or t.text == "<":
            depth += 1
        elif t.text in rustlex.CLOSE or t.text == ">":
            depth -= 1
        elif depth == 1:
            if expect_field and t.kind == "id" and toks[k + 1].text == ":":
                if t.text != "pub":
                    # previous token pub?
                    if toks[k - 1].text != "pub" and toks[k - 1].text != ")":
                        ins.append(t.start)
                expect_field = False
            elif t.text == ",":
                expect_field = True
            elif t.text == "#":
                pass
        if t.text == "{" and depth == 1:
            expect_field = True
        k += 1
    text = sf.text[base_off:toks[en].end]
    for off in sorted(ins, reverse=True):
        r = off - base_off
        text = text[:r] + "pub " + text[r:]
    return text


def _preprocess(path, depth, defines=None):
    """expand `//@@ INCLUDE <file>` textually and resolve `//@@ DEFINE X` / `//@@ IFDEF X` / `//@@ IFNDEF X` /
    `//@@ ELSE` / `//@@ ENDIF`; returns (lines, [(file, line)])"""
    if depth > 5:
        raise GenError("INCLUDE nesting too deep at %s" % path)
    if defines is None:
        defines = set()
    with open(path, encoding="utf-8") as f:
        raw = f.read().split("\n")
    lines, tmap = [], []
    stack = []   # list of booleans: is the current block active
    for n, l in enumerate(raw, 1):
        s = l.strip()
        active = all(stack)
        if s.startswith("//@@ IFDEF") or s.startswith("//@@ IFNDEF"):
            name = s.split()[2]
            cond = (name in defines) if s.startswith("//@@ IFDEF") else (name not in defines)
            stack.append(cond)
            continue
        if s.startswith("//@@ ELSE"):
            stack[-1] = not stack[-1]
            continue
        if s.startswith("//@@ ENDIF"):
            stack.pop()
            continue
        if not active:
            continue
        if s.startswith("//@@ DEFINE"):
            defines.add(s.split()[2])
            continue
        if s.startswith("//@@ INCLUDE"):
            inc = os.path.join(os.path.dirname(path), s.split()[2])
            il, im = _preprocess(inc, depth + 1, defines)
            lines.extend(il)
            tmap.extend(im)
        else:
            lines.append(l)
            tmap.append((os.path.basename(path), n))
    return lines, tmap


_LABEL = re.compile(r"//#\s*(\S+)(?:\s+\[([A-Z0-9,\-]+)\])?\s*$")


def _emit_fn(unit, repo, rel, scope, name, opts, flags, contract, directives, vacuity, template_path):
    sf = load_src(repo, rel)
    try:
        loc = sf.find_fn(scope, name)
    except KeyError as e:
        raise GenError(str(e))
    toks = sf.toks
    fn_i, ob, cb = loc["fn"], loc["open"], loc["close"]
    qual = (scope + "::" if scope != "free" else "") + name
    out_name = opts.get("as", name)
    ret_id = opts.get("ret", "r")

    # ---- signature --------------------------------------------------------------------
    sig_toks = toks[fn_i:ob]
    depth, arrow = 0, None
    for k, t in enumerate(sig_toks):
        if t.kind == "punct":
            if t.text in rustlex.OPEN:
                depth += 1
            elif t.text in rustlex.CLOSE:
                depth -= 1
            elif t.text == "->" and depth == 0:
                arrow = k
            elif t.text == "where" and depth == 0:
                raise GenError("%s: where-clause on %s not supported" % (rel, qual))
    if any(t.text == "where" for t in sig_toks):
        raise GenError("%s: where-clause on %s not supported" % (rel, qual))
    info = {"fn": qual, "file": rel, "repo_line": sf.text.count("\n", 0, toks[fn_i].start) + 1}
    name_tok = toks[fn_i + 1]
    head = sf.text[toks[fn_i].start:name_tok.start] + out_name
    if arrow is None:
        sig = head + sf.text[name_tok.end:sig_toks[-1].end]
    else:
        ty = sf.text[sig_toks[arrow + 1].start:sig_toks[-1].end]
        sig = head + sf.text[name_tok.end:sig_toks[arrow].start] + "-> (%s: %s)" % (ret_id, ty.strip())
    for (dk, dopts, pat, rep, tline) in directives:
        if dk == "SIG":
            # declared signature edit (e.g. a tuple-pattern parameter spelled as two parameters)
            if not vacuity:
                unit.edits.append({"fn": qual, "kind": "sig", "file": rel, "line": info["repo_line"],
                                   "original": re.sub(r"\s+", " ", sf.text[toks[fn_i].start:sig_toks[-1].end]),
                                   "replacement": " ".join(dopts) + " " + rep})
            sig = " ".join(dopts)
            if vacuity:
                sig = sig.replace(out_name.replace("__vac", ""), out_name, 1) if out_name.endswith("__vac") else sig
    directives = [d for d in directives if d[0] != "SIG"]
    if "stub" in flags:
        unit.segs.append(Seg("#[verifier::external_body]\n", "template", {"tline": 0}))
    unit.segs.append(Seg(sig + "\n", "sig", info))

    # ---- contract ------------------------------------------------------------------------
    ctext = "\n".join(c for c, _ in contract)
    has_ens = re.search(r"\bensures\b", ctext) is not None
    vac_done = False
    # a label at the end of a (possibly multi-line) clause applies to every line of that clause
    labels = [None] * len(contract)
    pending = []
    for k, (cl, tline) in enumerate(contract):
        m = _LABEL.search(cl)
        pending.append(k)
        if m:
            lab = (m.group(1), [p for p in (m.group(2) or "").split(",") if p])
            for q in pending:
                labels[q] = lab
            pending = []
        elif re.match(r"^\s*(requires|ensures|decreases|recommends)\s*$", cl):
            pending = []
    for k, (cl, tline) in enumerate(contract):
        label, props = labels[k] if labels[k] else (None, [])
        m = _LABEL.search(cl)
        text = cl
        if vacuity and vacuity != "probe" and not vac_done:
            if has_ens and re.search(r"\bensures\b", cl):
                text = re.sub(r"\bensures\b", "ensures false,", cl, count=1)
                vac_done = True
            elif not has_ens and re.search(r"\bdecreases\b", cl):
                text = re.sub(r"\bdecreases\b", "ensures false, decreases", cl, count=1)
                vac_done = True
        unit.segs.append(Seg(text + "\n", "contract",
                             {"fn": qual, "tline": tline, "label": label, "props": props}))
        if m and not vacuity:
            unit.clauses.append({"fn": qual, "label": label, "props": props, "text": cl.split("//#")[0].strip()})
    if vacuity and vacuity != "probe" and not vac_done:
        unit.segs.append(Seg("    ensures false,\n", "contract", {"fn": qual, "tline": 0, "label": "VACUITY", "props": []}))

    if "stub" in flags:
        unit.segs.append(Seg("{ unimplemented!() }\n", "template", {"tline": 0}))
        unit.functions.append({
            "unit": unit.name, "fn": qual, "emitted_as": out_name, "file": rel,
            "line": sf.text.count("\n", 0, toks[fn_i].start) + 1, "end_line": sf.text.count("\n", 0, toks[cb].end) + 1,
            "body_sha256": "", "props": [p for p in opts.get("props", "").split(",") if p], "kf": opts.get("kf"),
            "novac": True, "vac_copy": False, "calls": [], "stub": True})
        return

    # ---- body edits ---------------------------------------------------------------------------
    replace, insert = {}, {}
    soft_lost = []

    binds = {}
    per_hit = {}
    per_end = {}

    def locate(dk, dopts, pat, tline):
        do = dict(o.split("=", 1) for o in dopts if "=" in o)
        want = do.get("count", "1")
        hits, n, b = _find_pattern(sf, ob, cb + 1, pat, qual, binds)
        per_hit.clear()
        per_hit.update(_find_pattern.last_bindings)
        per_end.clear()
        per_end.update(_find_pattern.last_ends)
        if len(hits) == 1:
            binds.update(b)
        if "optional" in dopts and not hits:
            return None, n
        if (want == "all" and not hits) or (want != "all" and len(hits) != int(want)):
            msg = "anchor lost in %s (%s line %d): pattern `%s` found %d times, want %s" % (
                qual, os.path.basename(template_path), tline, pat.strip(), len(hits), want)
            if dk in ("HINT", "LOOPINV", "CLAIM", "INVCLAIM"):
                soft_lost.append(msg)
                return None, n
            raise GenError(msg)
        return hits, n

    scaffold = []
    for (dk, dopts, pat, rep, tline) in directives:
        if dk in ("OUTLINE", "HAVOC", "CLOSURE", "REPLACE", "ITERNAME"):
            hits, n = locate(dk, dopts, pat, tline)
            # PIN: a pattern with `$$` wildcards matches ANY text in the wildcard positions, so the replaced text —
            # whose behaviour the replacement's assumed contract describes — is pinned by a hash of its tokens.  If the
            # code under the wildcard changes, the assumption has to be re-reviewed: the function becomes undecided.
            nw = pat.count("$$")
            carried = all(("$$%d" % k) in rep for k in range(1, nw + 1))   # every wildcard's text is carried into the replacement
            # `nopin`: the dropped text is verified elsewhere on every run (assume-guarantee split between two units), so no
            # assumption about it can go stale
            if hits and nw and not carried and "nopin" not in dopts:
                # only the wildcard texts that are NOT carried into the replacement are pinned (the literal tokens are
                # fixed by the pattern; carried texts are emitted and verified as they are)
                dropped = [k for k in range(1, nw + 1) if ("$$%d" % k) not in rep]
                chunks = []
                for h in hits:
                    hb = per_hit.get(h, {})
                    for k in dropped:
                        rng = hb.get("$$%d@" % k)
                        if rng:
                            chunks.append(" ".join(x.text for x in toks[rng[0]:rng[1]] if x.kind not in ("comment", "ws")))
                orig = " | ".join(chunks)
                pin = hashlib.sha256(orig.encode()).hexdigest()[:12]
                want = dict(o.split("=", 1) for o in dopts if "=" in o).get("pin")
                unit.pins.append({"fn": qual, "tline": tline, "template": os.path.basename(template_path), "pin": pin, "declared": want})
                if not want and not os.environ.get("VERIF_SETPINS"):
                    raise GenError("%s line %d: declared edit with `$$` wildcards whose text is not carried into the replacement has no pin: "
                                   "review its assumed contract, then run tools/setpins.py" % (os.path.basename(template_path), tline))
                if want and want != pin and not os.environ.get("VERIF_SETPINS"):
                    raise GenError("anchor lost in %s (%s line %d): the text replaced by this declared edit changed (pin %s, now %s): "
                                   "its assumed contract must be reviewed again" % (qual, os.path.basename(template_path), tline, want, pin))
            for h in hits or []:
                rep_h = _subst(rep, per_hit.get(h, binds), deep="deep" in dopts)
                replace[h] = (per_end.get(h, h + n), rep_h, dk.lower(), tline)
                if not vacuity:
                    unit.edits.append({"fn": qual, "kind": dk.lower(), "file": rel,
                                       "line": sf.text.count("\n", 0, toks[h].start) + 1,
                                       "original": sf.text[toks[h].start:toks[per_end.get(h, h + n) - 1].end],
                                       "replacement": _subst(rep, per_hit.get(h, binds))})
        elif dk in ("HINT", "LOOPINV", "CLAIM", "INVCLAIM"):
            where = dopts[0] if dopts and dopts[0] in ("after", "before") else "after"
            hits, n = locate(dk, dopts, pat, tline)
            for h in hits or []:
                at = per_end.get(h, h + n) if where == "after" else h
                # wildcard captures ($$1, $$2, ...) belong to THIS anchor: substitute them now (metavariables are
                # substituted late, from the function-wide bindings)
                hb = per_hit.get(h, {})
                rep_h = re.sub(r"\$\$([0-9]+)", lambda m: hb.get("$$" + m.group(1), m.group(0)) if isinstance(hb.get("$$" + m.group(1)), str) else m.group(0), rep)
                scaffold.append((at, rep_h, tline, dk))
            if not hits:
                scaffold.append((None, rep, tline, dk))
        else:
            raise GenError("%s:%d: unknown FN directive %s" % (template_path, tline, dk))
    if soft_lost:
        # the proof scaffolding no longer matches the code: drop ALL of it for this function (hints refer to
        # each other); the function's own failures are then undecided, the rest of the unit is still decided
        unit.hints_lost[qual] = soft_lost
        scaffold = []
    for (at, rep, tline, dk) in scaffold:
        if at is None:
            continue
        rep = _subst(rep, binds)   # late substitution: a hint may use a name bound by a later anchor
        insert.setdefault(at, []).append((rep, tline, dk))
        if dk in ("CLAIM", "INVCLAIM") and not vacuity:
            m = _LABEL.search(rep)
            if m:
                unit.clauses.append({"fn": qual, "label": m.group(1), "props": [p for p in (m.group(2) or "").split(",") if p],
                                     "text": rep.split("//#")[0].strip()})

    probe_after = set()
    if vacuity == "probe" and "vac_copy" in flags:
        probe_after = _probe_points(toks, ob, cb, replace)
    be = BodyEmitter(unit, sf, qual, replace, insert, probe_after)
    cur = be.emit(ob, cb + 1, toks[ob].start)
    be._verb(cur, toks[cb].end)
    unit.segs.extend(be.out)
    unit.segs.append(Seg("\n", "template", {"tline": 0}))
    body = sf.text[toks[ob].start:toks[cb].end]
    unit.functions.append({
        "unit": unit.name, "fn": qual, "emitted_as": out_name, "file": rel,
        "line": sf.text.count("\n", 0, toks[fn_i].start) + 1,
        "end_line": sf.text.count("\n", 0, toks[cb].end) + 1,
        "body_sha256": hashlib.sha256(body.encode()).hexdigest()[:16],
        "props": [p for p in opts.get("props", "").split(",") if p],
        "kf": opts.get("kf"),
        "novac": "novac" in flags,
        "vac_copy": "vac_copy" in flags, "module": opts.get("mod"),
        "calls": sorted({toks[k].text for k in range(ob, cb) if toks[k].kind == "id" and toks[k + 1].text == "("}),
    })
