"""Sub-checks that are NOT deductive proofs: bounded / enumerated stand-ins executed on the real code
through the replay binary, and replays of known-finding witnesses.  They are reported under
coverage.extra, labelled bounded, and never counted in obligations/discharged."""
import json
import os

from . import replay

VERIF = os.path.dirname(os.path.dirname(os.path.abspath(__file__)))

# inputs for the C18 span oracle (vxreplay spans): every real token's span must cover exactly its
# spelling in the source, spans ordered, Indent/Dedent balanced, exactly one trailing Eof
SPAN_CORPUS = [
    "",
    "a",
    "def x := 10\n",
    "def s := \"\"\ndef t := 3 + 4\n",
    "def s := \"a\nbc\" + 1\nprint(s)\n",
    "def s := \"a\n\"\ndef t := 1\n",
    "class X\n    \"\"\"doc\"\"\"\n    def y := 2E3 + 1\n    \"\"\"a\n    b\n    \"\"\"\n",
    "def f(x: Int) -> Int =>\n    if x > 0 then\n        x\n    else\n        0 - x\n\nprint(f(2))\n",
    "def a := [1, 2, 3]   \n\n\n# comment\ndef b := a[0 ::= 2]  # trailing\n",
    "def s := \"{a + 1} and {b}\"\ndef t := s\n",
    "for i in 0 ..= 10 .. 2 do\n    print(i)\n    # c\n\n    print(i + 1)\nprint(0)",
    "def x := 1\r\ndef y := 2\r\n",
    "a <<= 2 >>= 3 ::= 4 ..= 5 != 6 <= 7 >= 8 -> 9 => 10 // 11 ^= 12\n",
    "def a := 1<<22 >>3 << 4\ndef b := a>>1\n",
    "def s := \"\u00e9\u00e9\u00e9\" + zzz  # caf\u00e9\ndef t := \"a\n\u00fc {s} b\" + s\n",
]


_WORDS = ["def", "fin", "x", "y1", "some_name", "Foo", "if", "then", "else", "for", "in", "do", "while", "match", "class",
          "type", "isa", "is", "and", "or", "not", "mod", "sqrt", "return", "pass", "raise", "handle", "when", "with", "as",
          "from", "import", "forward", "pure", "vararg", "continue", "break", "_", "_and_", "_or_", "_xor_", "_not_",
          "0", "7", "1234", "1.5", "20.25", "2E3", "10E22", "1.5E7",
          ":=", "+=", "-=", "*=", "/=", "^=", "<<=", ">>=", "..", "..=", "::", "::=", "+", "-", "*", "/", "//", "^",
          "<<", ">>", ">", ">=", "<", "<=", "=", "!=", "(", ")", "[", "]", "{", "}", "|", "->", "=>", "?", ".", ",", ":",
          '""', '"abc"', '"a b  c"', '"{x}"', '"v: {x + 1} and {y1}"', '"\\n esc \\""', '"""doc"""', '"""a doc string"""']


def _random_source(rnd):
    """random token soup with 4-aligned indentation, random spacing, blank lines, comments, multi-line strings"""
    lines, depth = [], 0
    nl = "\r\n" if rnd.random() < 0.15 else "\n"
    for _ in range(rnd.randint(1, 12)):
        r = rnd.random()
        if r < 0.12:
            lines.append(" " * rnd.choice([0, 0, 2, 4, 7]))          # blank / whitespace-only line
            continue
        depth = max(0, min(4, depth + rnd.choice([-2, -1, 0, 0, 0, 1])))
        if r < 0.22:
            lines.append(" " * (4 * depth) + "#" + rnd.choice(["", " note", " a + b # nested", "{"]))
            continue
        toks = []
        for _ in range(rnd.randint(1, 8)):
            w = rnd.choice(_WORDS)
            if rnd.random() < 0.06:
                w = '"line one' + nl + rnd.choice(["", "two", "  three "]) + '"'     # multi-line string
            elif rnd.random() < 0.04:
                w = '"""multi' + nl + " " * (4 * depth) + "line doc" + nl + " " * (4 * depth) + '"""'
            toks.append(w)
        line = " " * (4 * depth)
        for k, w in enumerate(toks):
            line += w + (" " * rnd.choice([1, 1, 1, 2, 3]) if k + 1 < len(toks) else "")
        if rnd.random() < 0.2:
            line += " " * rnd.randint(0, 3) + "# trailing"
        if rnd.random() < 0.15:
            line += " " * rnd.randint(1, 3)
        lines.append(line)
    return nl.join(lines) + (nl if rnd.random() < 0.7 else "")


def _load_findings(pid):
    p = os.path.join(VERIF, "known_findings.json")
    with open(p) as f:
        return [x for x in json.load(f).get("findings", []) if x["property"] == pid]


def lex_bounded(pid, cfg, results, tier, seed):
    out = {"info": {"kind": "bounded stand-in (NOT proof): executed on the real lexer via the guarded hook",
                    "runs": []},
           "violations": [], "undecided": [], "known": [], "cmds": [], "trusted": []}
    ok, log = replay.build()
    if not ok:
        out["undecided"].append("replay binary unavailable: " + log[-400:])
        return out
    out["cmds"].append("cargo build --offline of /verif/replay (vxreplay, depends on /repo with feature mamba_verif); vxreplay relex; vxreplay spans <corpus>")
    # 1. canonical spelling re-lexes to the same token, width == spelling length (all payload-free kinds + samples)
    rc, txt = replay.call(["relex"])
    summary = [l for l in (txt or "").splitlines() if l.startswith("RELEX|")]
    fails = [l for l in (txt or "").splitlines() if l.startswith("RELEXFAIL|")]
    out["info"]["runs"].append({"check": "relex", "bound": "93 tokens: every payload-free kind + 15 sample payloads",
                                "result": summary[0] if summary else "no result", "failures": fails[:10]})
    if rc is None or not summary:
        out["undecided"].append("relex did not run: " + (txt or "")[-300:])
    elif fails:
        out["violations"].append(({"unit": "LEX-BOUNDED"}, {
            "obligation": "LEX-BOUNDED::relex::canonical_spelling_relexes", "kind": "bounded", "fn": "tokenize",
            "message": "a token's canonical spelling does not lex back to that token with width == spelling length",
            "rendered": "\n".join(fails[:10]), "case": {"kind": "relex"}}))
    # 2. span oracle on the corpus
    bad = 0
    for i, src in enumerate(SPAN_CORPUS):
        rc, txt = replay.run_case({"kind": "spans", "input": src})
        fl = [l for l in (txt or "").splitlines() if l.startswith("SPANFAIL|")]
        if rc is None:
            out["undecided"].append("spans did not run: " + (txt or "")[-300:])
            break
        if fl:
            bad += 1
            out["violations"].append(({"unit": "LEX-BOUNDED"}, {
                "obligation": "LEX-BOUNDED::spans::corpus_%d" % i, "kind": "bounded", "fn": "tokenize",
                "message": "span oracle fails on a corpus input",
                "rendered": "input: %r\n%s" % (src, "\n".join(fl[:10])), "case": {"kind": "spans", "input": src}}))
    out["info"]["runs"].append({"check": "spans", "bound": "%d fixed inputs" % len(SPAN_CORPUS), "failing_inputs": bad})
    # 2b. thorough tier: seeded random exploration with the same oracle (exploration, NOT proof)
    if tier == "thorough":
        import random, shutil
        rnd = random.Random(seed)
        d = os.path.join(VERIF, "build", "spans-random-%s-%d" % (pid, os.getpid()))
        shutil.rmtree(d, ignore_errors=True)
        os.makedirs(d)
        n = 400
        srcs = {}
        for i in range(n):
            src = _random_source(rnd)
            name = "r%04d.mamba" % i
            srcs[name] = src
            with open(os.path.join(d, name), "w", newline="") as f:
                f.write(src)
        rc, txt = replay.call(["spansdir", d], timeout=600)
        cur, fails, lexerr, accepted = None, {}, 0, 0
        for l in (txt or "").splitlines():
            if l.startswith("FILE|"):
                cur = l[5:]
            elif l.startswith("SPANFAIL|") or l.startswith("PANIC|"):
                fails.setdefault(cur, []).append(l)
            elif l.startswith("LEXERR|"):
                lexerr += 1
            elif l.startswith("SPANS|"):
                accepted += 1
        out["info"]["runs"].append({"check": "random spans (exploration)", "seed": seed, "inputs": n, "accepted_by_lexer": accepted,
                                    "lex_errors": lexerr, "failing_inputs": len(fails),
                                    "sample_input": srcs["r0000.mamba"][:200]})
        if rc is None:
            out["undecided"].append("random spans did not run: " + (txt or "")[-300:])
        for name, fl in sorted(fails.items())[:5]:
            out["violations"].append(({"unit": "LEX-BOUNDED"}, {
                "obligation": "LEX-BOUNDED::spans::random_seed%d_%s" % (seed, name), "kind": "bounded", "fn": "tokenize",
                "message": "span oracle fails on a generated input",
                "rendered": "input: %r\n%s" % (srcs[name], "\n".join(fl[:10])), "case": {"kind": "spans", "input": srcs[name]}}))
        shutil.rmtree(d, ignore_errors=True)
    # 3. known-finding witnesses
    for ent in _load_findings(pid):
        w = ent.get("witness") or {}
        if ent["status"] != "finding" or w.get("kind") not in ("spans",):
            continue
        rc, txt = replay.run_case(w)
        fl = [l for l in (txt or "").splitlines() if l.startswith("SPANFAIL|")]
        hit = [l for l in fl if w.get("expect_fail", "") in l]
        if hit:
            out["known"].append(ent)
            out["info"]["runs"].append({"check": "known-finding witness", "id": ent["id"], "reproduces": True, "output": hit[:3]})
        else:
            out["info"]["runs"].append({"check": "known-finding witness", "id": ent["id"], "reproduces": False})
            out["undecided"].append("known finding %s no longer reproduces on its witness: turn the entry into `fixed` (KNOWN-FINDING-RESOLVED)" % ent["id"])
    return out


# ------------------------------------------------------------------------------------------------
# Witness replays through the real pipeline (NOT proof): every entry of known_findings.json for the property whose
# witness is a whole program.  An OPEN finding must still reproduce (-> KNOWN-FINDING line; if it no longer does, the
# check is undecided until the entry is turned into `fixed`).  A FIXED entry suppresses nothing: its witness is
# replayed as a regression case and a witness that fails again is reported as a violation with the input attached.
def _pipeline_verdict(txt):
    first = ((txt or "").splitlines() or [""])[0].strip()
    return first if first in ("OK", "ERR") else None


def kf_pipeline(pid, cfg, results, tier, seed):
    out = {"info": {"kind": "replay of recorded witnesses on the real pipeline (NOT proof)", "runs": []},
           "violations": [], "undecided": [], "known": [], "cmds": [], "trusted": []}
    ents = [e for e in _load_findings(pid) if (e.get("witness") or {}).get("kind") == "pipeline" and (e.get("witness") or {}).get("verdict")]
    if not ents:
        return out
    ok, log = replay.build()
    if not ok:
        out["undecided"].append("replay binary unavailable: " + log[-400:])
        return out
    out["cmds"].append("vxreplay pipeline <witness> (mamba_to_python on the working tree)")
    for ent in ents:
        w = ent["witness"]
        rc, txt = replay.run_case({"kind": "pipeline", "input": w["input"], "annotate": bool(w.get("annotate"))})
        got = _pipeline_verdict(txt)
        if got is None:
            out["undecided"].append("witness of %s did not run: %s" % (ent["id"], (txt or "")[-200:]))
            continue
        # w["verdict"] is the verdict the PROPERTY demands (OK = accepted, ERR = rejected); optional w["contains"]
        good = got == w["verdict"] and (not w.get("contains") or w["contains"] in (txt or ""))
        out["info"]["runs"].append({"check": "witness", "id": ent["id"], "status": ent["status"], "demanded": w["verdict"], "got": got})
        if ent["status"] == "finding":
            if not good:
                out["known"].append(ent)
            else:
                out["undecided"].append("known finding %s no longer reproduces on its witness: turn the entry into `fixed` (KNOWN-FINDING-RESOLVED)" % ent["id"])
        elif not good:
            out["violations"].append(({"unit": "WITNESS"}, {
                "obligation": "WITNESS::%s::fixed_defect_stays_fixed" % ent["id"], "kind": "replay", "fn": "mamba_to_python",
                "message": "the witness of the fixed defect %s fails again: the property demands %s, the pipeline says %s" % (ent["id"], w["verdict"], got),
                "rendered": "input:\n%s\noutput:\n%s" % (w["input"], (txt or "")[:600]),
                "case": {"kind": "pipeline", "input": w["input"], "annotate": bool(w.get("annotate")), "expected": w["verdict"]}}))
    return out


# ------------------------------------------------------------------------------------------------
# C19 / C13 bounded stand-in (NOT proof): the multi-file attribution oracle.  Small projects (2-3 files of different length,
# one or two of them with ONE injected fault: lexical, syntactic, definition-gathering or type) go through the real
# mamba_to_python in one call.  Oracle, written from the property text: the project is rejected; every diagnostic names a
# file that HAS a fault and no other file; the line it quotes next to line number L is verbatim line L of the file it names.
# It complements unit PIPE: when a restructuring of lib.rs makes PIPE undecided (anchor lost), this still decides the
# attribution on its bound and yields a concrete failing project.
_CLEAN = ["def a{i} := {c}\n", "def f{i}(x: Int) -> Int => x + {c}\n\n\ndef v{i} := f{i}(1)\n",
          "def g{i}(x: Int) -> Int =>\n    def y := x + {c}\n    y\n\n\ndef w{i} := g{i}(2)\ndef z{i} := w{i} + 1\n"]
_FAULTS = [("lexical", 'def s%d := "abc\n'), ("syntax", "def t%d := 3 +\n"),
           ("definitions", "def h%d(a: Int := 1, b: Int) -> Int => a\n"), ("type", "def u%d: Str := 4\n")]


def _clean_text(kind, i):
    return _CLEAN[kind].format(i=i, c=i + 1)


def _project_cases():
    cases = []
    for n in (2, 3):
        for j in range(n):
            for fk, (fname, ftext) in enumerate(_FAULTS):
                for lead in (0, 1, 2):
                    files = []
                    for i in range(n):
                        # files of different length; the faulty one gets `lead` as its clean prefix
                        text = _clean_text((i + j + fk) % 3, 10 * i)
                        if i == j:
                            text = _clean_text(lead, 10 * i) + ("\n\n" if lead else "") + (ftext % (10 * i + 7))
                        files.append(["f%d.mamba" % i, text])
                    cases.append({"files": files, "faulty": [j], "fault": fname})
    # two faulty files around a clean one
    for fk, (fname, ftext) in enumerate(_FAULTS):
        files = [["f0.mamba", _clean_text(1, 0) + "\n\n" + (ftext % 7)], ["f1.mamba", _clean_text(2, 10)],
                 ["f2.mamba", _clean_text(0, 20) + "\n\n" + (ftext % 27)]]
        cases.append({"files": files, "faulty": [0, 2], "fault": fname})
    return cases


def _check_project(case, txt):
    """-> list of complaints (empty: the oracle holds)"""
    import re
    lines = (txt or "").splitlines()
    head = [l for l in lines if l.startswith("OK|") or l.startswith("ERR|")]
    if not head:
        return None
    if head[0].startswith("OK|"):
        return ["the project has a fault in %s but was accepted" % ", ".join("f%d.mamba" % j for j in case["faulty"])]
    msgs = [l[4:].replace("\\n", "\n").replace("\\x7c", "|").replace("\\\\", "\\") for l in lines if l.startswith("MSG|")]
    bad = []
    if not msgs:
        bad.append("rejected without any diagnostic")
    texts = {name: text for name, text in case["files"]}
    for m in msgs:
        named = [name for name in texts if ("src/" + name) in m]
        if len(named) != 1:
            bad.append("a diagnostic names %s (want exactly one file): %r" % (named or "no file", m[:160]))
            continue
        idx = int(named[0][1:-6])
        if idx not in case["faulty"]:
            bad.append("a diagnostic names %s, which has no fault: %r" % (named[0], m[:160]))
            continue
        flines = texts[named[0]].split("\n")
        for q in re.finditer(r"^\s*(\d+) \| (.*)$", m, re.M):
            ln, quoted = int(q.group(1)), q.group(2)
            if ln < 1 or ln > len(flines) or flines[ln - 1] != quoted:
                bad.append("line %d quoted as %r is not line %d of %s" % (ln, quoted, ln, named[0]))
    return bad


def pipe_bounded(pid, cfg, results, tier, seed):
    out = {"info": {"kind": "bounded stand-in (NOT proof): small multi-file projects through the real mamba_to_python", "runs": []},
           "violations": [], "undecided": [], "known": [], "cmds": [], "trusted": []}
    ok, log = replay.build()
    if not ok:
        out["undecided"].append("replay binary unavailable: " + log[-400:])
        return out
    out["cmds"].append("vxreplay project <dir> on generated projects (2-3 files, 4 fault kinds, every position of the faulty file)")
    cases = _project_cases()
    failing = 0
    for ci, case in enumerate(cases):
        rc, txt = replay.run_case({"kind": "project", "files": case["files"]})
        bad = _check_project(case, txt)
        if bad is None:
            out["undecided"].append("project case %d did not run: %s" % (ci, (txt or "")[-200:]))
            break
        if bad:
            failing += 1
            if failing <= 3:
                out["violations"].append(({"unit": "PIPE-BOUNDED"}, {
                    "obligation": "PIPE-BOUNDED::attribution::case_%d_%s" % (ci, case["fault"]), "kind": "bounded", "fn": "mamba_to_python",
                    "message": "multi-file attribution oracle fails: " + "; ".join(bad[:3]),
                    "rendered": "files:\n%s\noutput:\n%s" % ("\n".join("--- %s\n%s" % (n, t) for n, t in case["files"]), (txt or "")[:1200]),
                    "case": {"kind": "project", "files": case["files"]}}))
    out["info"]["runs"].append({"check": "multi-file attribution", "bound": "%d generated projects: 2-3 files x faulty file x {lexical, syntax, definitions, type} x 3 positions, + 4 with two faulty files" % len(cases),
                                "failing_projects": failing})
    return out


# ------------------------------------------------------------------------------------------------
# C13 bounded stand-in (NOT proof): small project trees through the real transpile_dir on a scratch directory.  Oracle, from the
# property text: an accepted project leaves exactly one .py per .mamba at the same relative path under the output directory and
# nothing else; a project with a faulty file is rejected and leaves no .py at all.
def _tree_cases():
    ok1, ok2, ok3 = _clean_text(0, 0), _clean_text(1, 10), _clean_text(2, 20)
    bad = "def u7: Str := 4\n"
    shapes = [
        ("flat", None, ["a.mamba", "b.mamba"]),
        ("nested", None, ["top.mamba", "pkg/one.mamba", "pkg/sub/two.mamba"]),
        ("custom source dir", "lib/mamba", ["m.mamba", "inner/n.mamba"]),
        ("custom target", None, ["x.mamba", "d/y.mamba"]),
    ]
    cases = []
    for name, src, rels in shapes:
        sdir = src or "src"
        texts = [ok1, ok2, ok3]
        target = "out" if name == "custom target" else None
        files = [[sdir + "/" + r, texts[i % 3]] for i, r in enumerate(rels)]
        cases.append({"name": name, "src": src, "target": target, "files": files, "srcdir": sdir, "rels": rels, "faulty": False})
        for j in range(len(rels)):
            f2 = [list(x) for x in files]
            f2[j][1] = f2[j][1] + "\n\n" + bad
            cases.append({"name": name + ", fault in " + rels[j], "src": src, "target": target, "files": f2, "srcdir": sdir, "rels": rels, "faulty": True})
    return cases


def tree_bounded(pid, cfg, results, tier, seed):
    out = {"info": {"kind": "bounded stand-in (NOT proof): small project trees through the real transpile_dir on a scratch directory", "runs": []},
           "violations": [], "undecided": [], "known": [], "cmds": [], "trusted": []}
    ok, log = replay.build()
    if not ok:
        out["undecided"].append("replay binary unavailable: " + log[-400:])
        return out
    out["cmds"].append("vxreplay transpile <scratch project> <src> <target>, then the written tree is compared")
    cases = _tree_cases()
    failing = 0
    for ci, case in enumerate(cases):
        rc, txt = replay.run_case({"kind": "transpile", "files": case["files"], "src": case["src"], "target": case["target"]})
        lines = (txt or "").splitlines()
        head = [l for l in lines if l.startswith("OK|") or l.startswith("ERR|")]
        if not head:
            out["undecided"].append("tree case %d did not run: %s" % (ci, (txt or "")[-200:]))
            break
        wrote = sorted(l[6:] for l in lines if l.startswith("WROTE|"))
        tdir = case["target"] or "target"
        bad = []
        if case["faulty"]:
            if head[0].startswith("OK|"):
                bad.append("a project with a faulty file was accepted")
            py = [w for w in wrote if w.endswith(".py")]
            if py:
                bad.append("a rejected project left Python behind: %s" % py)
        else:
            want = sorted(tdir + "/" + r[:-6] + ".py" for r in case["rels"])
            if head[0].startswith("ERR|"):
                bad.append("a valid project was rejected")
            elif wrote != want:
                bad.append("written tree %s, want exactly %s" % (wrote, want))
        if bad:
            failing += 1
            if failing <= 3:
                out["violations"].append(({"unit": "PROJ-BOUNDED"}, {
                    "obligation": "PROJ-BOUNDED::tree::case_%d" % ci, "kind": "bounded", "fn": "transpile_dir",
                    "message": "project tree oracle fails (%s): %s" % (case["name"], "; ".join(bad)),
                    "rendered": "files: %s\noutput:\n%s" % ([f for f, _ in case["files"]], (txt or "")[:1200]),
                    "case": {"kind": "transpile", "files": case["files"], "src": case["src"], "target": case["target"]}}))
    out["info"]["runs"].append({"check": "project trees", "bound": "%d scratch projects: 4 layouts (flat, nested, custom source dir, custom target), each valid and with a type fault in each file" % len(cases),
                                "failing_projects": failing})
    return out


# ------------------------------------------------------------------------------------------------
# C11: the flag may only be READ inside functions under contract (convert_def) or at the plumbing
# sites that copy it from the command line into the generator state.  A new reader makes the check
# undecided (never a silent pass, never an alarm).
ANNOTATE_PLUMBING = {
    ("src/lib.rs", "annotate: arguments.annotate,"),
    ("src/generate/mod.rs", "annotate: pipeline_args.annotate,"),
    ("src/generate/convert/state.rs", "annotate: gen_arguments.annotate,"),
}


def annotate_readers(pid, cfg, results, tier, seed):
    import re
    from . import driver
    out = {"info": {}, "violations": [], "undecided": [], "cmds": ["scan of src/**/*.rs for reads of `.annotate`"]}
    covered = []   # (file, start, end) of functions under contract
    for u in results.values():
        for fn in u.get("functions", []) or []:
            covered.append((fn["file"], fn["line"], fn["end_line"]))
    readers, plumbing = [], []
    root = os.path.join(driver.REPO, "src")
    for dp, dn, fns in os.walk(root):
        for fn in fns:
            if not fn.endswith(".rs"):
                continue
            path = os.path.join(dp, fn)
            rel = os.path.relpath(path, driver.REPO)
            try:
                lines = open(path, encoding="utf-8").read().split("\n")
            except OSError:
                continue
            for n, line in enumerate(lines, 1):
                code = line.split("//")[0]
                if not re.search(r"\.\s*annotate\b(?!\s*:)", code):
                    continue
                if any(rel == f and a <= n <= b for (f, a, b) in covered):
                    continue
                if (rel, code.strip()) in ANNOTATE_PLUMBING:
                    plumbing.append("%s:%d" % (rel, n))
                    continue
                readers.append("%s:%d: %s" % (rel, n, code.strip()))
    out["info"] = {"readers_inside_contracted_functions_only": not readers, "plumbing_sites": plumbing,
                   "uncontracted_readers": readers}
    if readers:
        out["undecided"].append("reader(s) of the annotate flag outside the functions under contract: %s — the non-interference argument of C11 no longer covers the whole crate" % "; ".join(readers))
    return out


# ------------------------------------------------------------------------------------------------
# Kani function contracts written in place on common/position.rs (loop-free, full usize domain: a
# passing harness is a complete proof, a failing one yields a concrete counterexample).
KANI_HARNESSES = {
    "check_offset_line": ("CaretPos::offset_line", "offset_line", 3),
    "check_offset_pos": ("CaretPos::offset_pos", "offset_pos", 3),
    "check_newline": ("CaretPos::newline", "newline", 2),
    "check_get_width": ("Position::get_width", "get_width", 4),
    "check_union": ("Position::union", "union", 8),
}


def _kani_dir():
    from . import driver
    return os.path.join(driver.BUILD, "kani-pos")


def _kani_prepare():
    import subprocess
    from . import driver
    d = _kani_dir()
    if not os.path.exists(os.path.join(driver.REPO, "Cargo.toml")):
        return None, "%s is not a full crate: Kani unavailable" % driver.REPO
    os.makedirs(d, exist_ok=True)
    p = subprocess.run(["rsync", "-rlpc", "--delete", "--exclude", "target", "--exclude", ".git", "--exclude", "Cargo.lock",
                        driver.REPO.rstrip("/") + "/", d + "/"], capture_output=True, text=True)
    if p.returncode != 0:
        return None, "rsync failed: " + p.stderr[-300:]
    lock = os.path.join(d, "Cargo.lock")
    src_lock = os.path.join(driver.REPO, "Cargo.lock")
    stamp = os.path.join(d, ".lock_src_sha")
    import hashlib
    sha = hashlib.sha256(open(src_lock, "rb").read()).hexdigest()
    if not os.path.exists(lock) or not os.path.exists(stamp) or open(stamp).read() != sha:
        import shutil
        shutil.copy(src_lock, lock)
        env = dict(os.environ, CARGO_NET_OFFLINE="true")
        # proc-macro2 1.0.47 does not build on Kani's nightly; it is reached only through the test-only
        # assert_cmd -> escargot -> serde_derive chain.  The bump is applied to the COPY's lock file only.
        q = subprocess.run(["cargo", "update", "-p", "proc-macro2", "--precise", "1.0.106", "--offline"], cwd=d,
                           capture_output=True, text=True, env=env)
        if q.returncode != 0:
            return None, "cargo update in the Kani copy failed: " + q.stderr[-300:]
        open(stamp, "w").write(sha)
    return d, None


def _kani_run(d, harness=None, playback=False, timeout=1500):
    import subprocess
    cmd = ["cargo", "kani", "-Z", "function-contracts"]
    if harness:
        cmd += ["--harness", "verif_kani::" + harness]
    if playback:
        cmd += ["-Z", "concrete-playback", "--concrete-playback=print"]
    env = dict(os.environ, CARGO_NET_OFFLINE="true")
    try:
        p = subprocess.run(cmd, cwd=d, capture_output=True, text=True, env=env, timeout=timeout)
        return p.returncode, p.stdout + p.stderr, " ".join(cmd)
    except subprocess.TimeoutExpired:
        return 124, "TIMEOUT", " ".join(cmd)


def _kani_parse(out):
    import re
    res = {}
    cur = None
    for line in out.splitlines():
        m = re.search(r"Checking harness \S*verif_kani::(\w+)", line)
        if m:
            cur = m.group(1)
            res[cur] = {"status": None, "checks": 0, "failed": 0, "failures": []}
            continue
        if cur:
            m = re.search(r"\*\* (\d+) of (\d+) failed", line)
            if m:
                res[cur]["failed"], res[cur]["checks"] = int(m.group(1)), int(m.group(2))
            if "VERIFICATION:- SUCCESSFUL" in line:
                res[cur]["status"] = "ok"
            elif "VERIFICATION:- FAILED" in line:
                res[cur]["status"] = "failed"
    return res


def _kani_counterexample(out, n):
    """byte vectors of the concrete playback test -> first n little-endian integers"""
    import re
    vals = []
    for m in re.finditer(r"vec!\[([0-9,\s]+)\]", out):
        bs = [int(x) for x in m.group(1).replace("\n", " ").split(",") if x.strip()]
        if 1 <= len(bs) <= 8:
            vals.append(sum(b << (8 * i) for i, b in enumerate(bs)))
    return vals[:n] if len(vals) >= n else None


def _expected(op, v):
    M = (1 << 64) - 1
    if op == "offset_line":
        return "CARET|%d|%d" % (v[0] + v[2], v[1])
    if op == "offset_pos":
        return "CARET|%d|%d" % (v[0], v[1] + v[2])
    if op == "newline":
        return "CARET|%d|%d" % (v[0] + 1, 1)
    if op == "get_width":
        return "WIDTH|%d" % max(1, abs(v[3] - v[1]))
    if op == "union":
        return "POSITION|%d|%d|%d|%d" % (min(v[0], v[4]), min(v[1], v[5]), max(v[2], v[6]), max(v[3], v[7]))
    return None


def kani_pos(pid, cfg, results, tier, seed):
    out = {"info": {"backend": "Kani 0.68 / CBMC 6.11, -Z function-contracts, contracts in place on src/common/position.rs",
                    "harnesses": {}},
           "violations": [], "undecided": [], "cmds": [], "samples": [], "obligations": 0, "discharged": 0,
           "trusted": ["KANI: Kani 0.68 + CBMC 6.11 + kissat; proc-macro2 bumped to 1.0.106 in the scratch copy's lock file only"]}
    if tier != "thorough" and not cfg.get("kani_quick"):
        out["info"]["skipped"] = "Kani runs in the thorough tier for this property"
        return out
    d, err = _kani_prepare()
    if err:
        out["undecided"].append(err)
        return out
    rc, txt, cmd = _kani_run(d)
    out["cmds"].append("(cd /verif/build/kani-pos && CARGO_NET_OFFLINE=true %s)" % cmd)
    res = _kani_parse(txt)
    if not res:
        out["undecided"].append("Kani produced no harness results (rc=%s): %s" % (rc, txt[-400:]))
        return out
    for h, (target, op, n) in KANI_HARNESSES.items():
        r = res.get(h)
        if not r or r["status"] is None:
            out["undecided"].append("Kani harness %s did not report" % h)
            continue
        out["obligations"] += 1
        out["info"]["harnesses"][h] = r
        ok = r["status"] == "ok"
        if ok:
            out["discharged"] += 1
        out["samples"].append({"obligation": "POS-KANI::%s (contract of %s over the full usize domain)" % (h, target),
                               "backend": "kani/cbmc", "discharged": ok, "cbmc_checks": r["checks"]})
        if not ok:
            rc2, txt2, cmd2 = _kani_run(d, h, playback=True)
            vals = _kani_counterexample(txt2, n)
            case = None
            rendered = "\n".join(l for l in txt2.splitlines() if "FAILURE" in l or "Description" in l)[:1500]
            if vals:
                from . import replay
                case = {"kind": "caret", "op": op, "values": vals}
                rrc, rout = replay.run_case(case)
                exp = _expected(op, vals)
                rendered += "\nKani counterexample %s(%s); real code returns %s, contract expects %s" % (
                    op, vals, (rout or "").strip(), exp)
                case["expected"] = exp
            out["violations"].append(({"unit": "POS-KANI"}, {
                "obligation": "POS-KANI::%s" % target, "kind": "kani", "fn": target,
                "message": "Kani: contract of %s fails" % target, "rendered": rendered, "case": case}))
    return out
