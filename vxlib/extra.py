"""Sub-checks that are NOT deductive proofs: bounded / enumerated stand-ins executed on the real code
through the replay binary, and replays of known-finding witnesses.  They are reported under
coverage.extra, labelled bounded, and never counted in obligations/discharged."""
import json
import os

from . import replay

VERIF = os.path.dirname(os.path.dirname(os.path.abspath(__file__)))

# inputs for the C18 span oracle (vxreplay spans): every real token's span must cover exactly its
# spelling in the source, spans ordered, Indent/Dedent balanced, exactly one trailing Eof
SPAN_CORPUS = [
    "",
    "a",
    "def x := 10\n",
    "def s := \"\"\ndef t := 3 + 4\n",
    "def s := \"a\nbc\" + 1\nprint(s)\n",
    "def s := \"a\n\"\ndef t := 1\n",
    "class X\n    \"\"\"doc\"\"\"\n    def y := 2E3 + 1\n    \"\"\"a\n    b\n    \"\"\"\n",
    "def f(x: Int) -> Int =>\n    if x > 0 then\n        x\n    else\n        0 - x\n\nprint(f(2))\n",
    "def a := [1, 2, 3]   \n\n\n# comment\ndef b := a[0 ::= 2]  # trailing\n",
    "def s := \"{a + 1} and {b}\"\ndef t := s\n",
    "for i in 0 ..= 10 .. 2 do\n    print(i)\n    # c\n\n    print(i + 1)\nprint(0)",
    "def x := 1\r\ndef y := 2\r\n",
    "a <<= 2 >>= 3 ::= 4 ..= 5 != 6 <= 7 >= 8 -> 9 => 10 // 11 ^= 12\n",
]


def _load_findings(pid):
    p = os.path.join(VERIF, "known_findings.json")
    with open(p) as f:
        return [x for x in json.load(f).get("findings", []) if x["property"] == pid]


def lex_bounded(pid, cfg, results, tier, seed):
    out = {"info": {"kind": "bounded stand-in (NOT proof): executed on the real lexer via the guarded hook",
                    "runs": []},
           "violations": [], "undecided": [], "known": [], "cmds": [], "trusted": []}
    ok, log = replay.build()
    if not ok:
        out["undecided"].append("replay binary unavailable: " + log[-400:])
        return out
    out["cmds"].append("cargo build --offline of /verif/replay (vxreplay, depends on /repo with feature mamba_verif); vxreplay relex; vxreplay spans <corpus>")
    # 1. canonical spelling re-lexes to the same token, width == spelling length (all payload-free kinds + samples)
    rc, txt = replay.call(["relex"])
    summary = [l for l in (txt or "").splitlines() if l.startswith("RELEX|")]
    fails = [l for l in (txt or "").splitlines() if l.startswith("RELEXFAIL|")]
    out["info"]["runs"].append({"check": "relex", "bound": "93 tokens: every payload-free kind + 15 sample payloads",
                                "result": summary[0] if summary else "no result", "failures": fails[:10]})
    if rc is None or not summary:
        out["undecided"].append("relex did not run: " + (txt or "")[-300:])
    elif fails:
        out["violations"].append(({"unit": "LEX-BOUNDED"}, {
            "obligation": "LEX-BOUNDED::relex::canonical_spelling_relexes", "kind": "bounded", "fn": "tokenize",
            "message": "a token's canonical spelling does not lex back to that token with width == spelling length",
            "rendered": "\n".join(fails[:10]), "case": {"kind": "relex"}}))
    # 2. span oracle on the corpus
    bad = 0
    for i, src in enumerate(SPAN_CORPUS):
        rc, txt = replay.run_case({"kind": "spans", "input": src})
        fl = [l for l in (txt or "").splitlines() if l.startswith("SPANFAIL|")]
        if rc is None:
            out["undecided"].append("spans did not run: " + (txt or "")[-300:])
            break
        if fl:
            bad += 1
            out["violations"].append(({"unit": "LEX-BOUNDED"}, {
                "obligation": "LEX-BOUNDED::spans::corpus_%d" % i, "kind": "bounded", "fn": "tokenize",
                "message": "span oracle fails on a corpus input",
                "rendered": "input: %r\n%s" % (src, "\n".join(fl[:10])), "case": {"kind": "spans", "input": src}}))
    out["info"]["runs"].append({"check": "spans", "bound": "%d fixed inputs" % len(SPAN_CORPUS), "failing_inputs": bad})
    # 3. known-finding witnesses
    for ent in _load_findings(pid):
        w = ent.get("witness") or {}
        if ent["status"] != "finding" or w.get("kind") not in ("spans",):
            continue
        rc, txt = replay.run_case(w)
        fl = [l for l in (txt or "").splitlines() if l.startswith("SPANFAIL|")]
        hit = [l for l in fl if w.get("expect_fail", "") in l]
        if hit:
            out["known"].append(ent)
            out["info"]["runs"].append({"check": "known-finding witness", "id": ent["id"], "reproduces": True, "output": hit[:3]})
        else:
            out["info"]["runs"].append({"check": "known-finding witness", "id": ent["id"], "reproduces": False})
            out["undecided"].append("known finding %s no longer reproduces on its witness: turn the entry into `fixed` (KNOWN-FINDING-RESOLVED)" % ent["id"])
    return out


# ------------------------------------------------------------------------------------------------
# C11: the flag may only be READ inside functions under contract (convert_def) or at the plumbing
# sites that copy it from the command line into the generator state.  A new reader makes the check
# undecided (never a silent pass, never an alarm).
ANNOTATE_PLUMBING = {
    ("src/lib.rs", "annotate: arguments.annotate,"),
    ("src/generate/mod.rs", "annotate: pipeline_args.annotate,"),
    ("src/generate/convert/state.rs", "annotate: gen_arguments.annotate,"),
}


def annotate_readers(pid, cfg, results, tier, seed):
    import re
    from . import driver
    out = {"info": {}, "violations": [], "undecided": [], "cmds": ["scan of src/**/*.rs for reads of `.annotate`"]}
    covered = []   # (file, start, end) of functions under contract
    for u in results.values():
        for fn in u.get("functions", []) or []:
            covered.append((fn["file"], fn["line"], fn["end_line"]))
    readers, plumbing = [], []
    root = os.path.join(driver.REPO, "src")
    for dp, dn, fns in os.walk(root):
        for fn in fns:
            if not fn.endswith(".rs"):
                continue
            path = os.path.join(dp, fn)
            rel = os.path.relpath(path, driver.REPO)
            try:
                lines = open(path, encoding="utf-8").read().split("\n")
            except OSError:
                continue
            for n, line in enumerate(lines, 1):
                code = line.split("//")[0]
                if not re.search(r"\.\s*annotate\b(?!\s*:)", code):
                    continue
                if any(rel == f and a <= n <= b for (f, a, b) in covered):
                    continue
                if (rel, code.strip()) in ANNOTATE_PLUMBING:
                    plumbing.append("%s:%d" % (rel, n))
                    continue
                readers.append("%s:%d: %s" % (rel, n, code.strip()))
    out["info"] = {"readers_inside_contracted_functions_only": not readers, "plumbing_sites": plumbing,
                   "uncontracted_readers": readers}
    if readers:
        out["undecided"].append("reader(s) of the annotate flag outside the functions under contract: %s — the non-interference argument of C11 no longer covers the whole crate" % "; ".join(readers))
    return out
