"""Satisfiability probes for ASSUMED contracts.

Every `#[verifier::external_body] fn` and every `assume_specification` of a generated unit file is a contract the
verifier takes on trust.  If one of them is contradictory (with itself, its types' axioms or its own precondition),
everything after a call of it verifies vacuously — and a function-level `ensures false` probe does not notice as long
as some other path through the caller is sound.  For each assumed contract this module emits

    fn verif_sat_N<..>(<the same parameters>) requires <the same precondition> { let _ = <call>; assert(false); }

which must FAIL.  A probe that verifies = an unsatisfiable assumed contract.  Shapes the generator cannot copy
(where-clauses, pattern parameters, impl Trait) are skipped and counted.
"""
import re

from .rustlex import tokenize, match_close

ITEM_START = {"#", "pub", "fn", "impl", "}", "proof", "spec", "open", "closed", "broadcast", "uninterp", "trait", "struct",
              "enum", "use", "const", "type", "mod", "unsafe", "global"}


def _skip_ws(toks, i):
    while i < len(toks) and toks[i].kind in ("comment", "ws"):
        i += 1
    return i


def _angle_close(toks, i):
    """toks[i] == '<' -> index of the matching '>' (handles '>>', '->' is a different token)"""
    depth = 0
    while i < len(toks):
        x = toks[i].text
        if x == "<":
            depth += 1
        elif x == ">":
            depth -= 1
        elif x == ">>":
            depth -= 2
        elif x in ("(", "[", "{"):
            i = match_close(toks, i)
        if depth <= 0 and x in (">", ">>"):
            return i
        i += 1
    return None


def _txt(src, toks, a, b):
    """source text of tokens [a, b)"""
    if b <= a:
        return ""
    return src[toks[a].start:toks[b - 1].end]


def _split_top(toks, a, b, sep=","):
    parts, depth, st = [], 0, a
    i = a
    while i < b:
        x = toks[i].text
        if x in ("(", "[", "{"):
            i = match_close(toks, i) + 1
            continue
        if x == "<":
            e = _angle_close(toks, i)
            if e is not None and e < b:
                i = e + 1
                continue
        if x == sep:
            parts.append((st, i))
            st = i + 1
        i += 1
    if st < b:
        parts.append((st, b))
    return parts


def _params(src, toks, a, b, impl_ty):
    """-> (decl text, arg names) or None"""
    decls, names = [], []
    for (s, e) in _split_top(toks, a, b):
        ts = [t for t in toks[s:e] if t.kind not in ("comment", "ws")]
        if not ts:
            continue
        words = [t.text for t in ts]
        if words[-1] == "self":
            if impl_ty is None:
                return None
            pre = "".join(words[:-1])
            if pre == "&":
                decls.append("verif_s: &%s" % impl_ty)
            elif pre == "&mut":
                decls.append("verif_s: &mut %s" % impl_ty)
            elif pre in ("", "mut"):
                decls.append("verif_s: %s" % impl_ty)
            else:
                return None
            names.append("verif_s")
            continue
        if words[0] == "mut":
            ts = ts[1:]
            words = words[1:]
        if len(words) < 3 or ts[0].kind != "id" or words[1] != ":":
            return None
        ty = src[ts[2].start:ts[-1].end]
        if re.search(r"\bimpl\b", ty):
            return None
        decls.append("%s: %s" % (words[0], ty))
        names.append(words[0])
    return ", ".join(decls), names


def _clauses(src, toks, i, end_pred):
    """from token i (first clause keyword or body) -> (requires text, index where the contract ends)"""
    req = ""
    j = i
    cur_kw, cur_start = None, None
    while j < len(toks):
        x = toks[j].text
        if end_pred(j):
            break
        if toks[j].kind == "id" and x in ("requires", "ensures", "decreases", "recommends", "no_unwind", "opens_invariants") \
                and toks[j - 1].text != ".":
            if cur_kw == "requires":
                req = _txt(src, toks, cur_start, j)
            cur_kw, cur_start = x, j + 1
            j += 1
            continue
        if x in ("(", "[", "{"):
            j = match_close(toks, j) + 1
            continue
        j += 1
    if cur_kw == "requires":
        req = _txt(src, toks, cur_start, j)
    return req.strip().rstrip(","), j


def generate(src):
    """-> (probe source text to put inside verus!{}, [probe records], [skipped records])"""
    toks = [t for t in tokenize(src)]
    n = len(toks)
    probes, skipped, out = [], [], []
    impl_stack = []   # (close index, impl generics text, type text, trait text or None)
    i = 0
    while i < n:
        t = toks[i]
        while impl_stack and i > impl_stack[-1][0]:
            impl_stack.pop()
        # impl header
        if t.kind == "id" and t.text == "impl" and (i == 0 or toks[i - 1].text not in (":", "+", "&", "<", ",", "(", "->")):
            j = i + 1
            gen = ""
            if j < n and toks[j].text == "<":
                e = _angle_close(toks, j)
                gen = _txt(src, toks, j + 1, e)
                j = e + 1
            k = j
            while k < n and toks[k].text != "{":
                if toks[k].text == "<":
                    k = _angle_close(toks, k)
                k += 1
            if k >= n:
                break
            hdr = toks[j:k]
            words = [x.text for x in hdr]
            has_where = "where" in words
            trait = None
            ty_a, ty_b = j, k
            # top-level `for`
            d, q = 0, j
            while q < k:
                if toks[q].text == "<":
                    q = _angle_close(toks, q)
                elif toks[q].kind == "id" and toks[q].text == "for":
                    trait = _txt(src, toks, j, q)
                    ty_a = q + 1
                    break
                q += 1
            ty = _txt(src, toks, ty_a, k)
            impl_stack.append((match_close(toks, k), gen, ty.strip(), trait.strip() if trait else None, has_where))
            i = k + 1
            continue
        # #[verifier::external_body] ... fn
        if t.text == "#" and i + 6 < n and [x.text for x in toks[i + 1:i + 7]] == ["[", "verifier", "::", "external_body", "]", "#"] or \
           (t.text == "#" and i + 5 < n and [x.text for x in toks[i + 1:i + 6]] == ["[", "verifier", "::", "external_body", "]"]):
            j = i + 6
            # further attributes
            while j < n and toks[j].text == "#":
                j = match_close(toks, j + 1) + 1
            if j < n and toks[j].text == "pub":
                j += 1
                if toks[j].text == "(":
                    j = match_close(toks, j) + 1
            if j >= n or toks[j].text != "fn":
                i += 1
                continue   # external_body on a struct / type spec
            name = toks[j + 1].text
            j += 2
            fgen = ""
            if toks[j].text == "<":
                e = _angle_close(toks, j)
                fgen = _txt(src, toks, j + 1, e)
                j = e + 1
            if toks[j].text != "(":
                i = j
                continue
            pe = match_close(toks, j)
            pa, pb = j + 1, pe
            j = pe + 1
            if toks[j].text == "->":
                # return type: up to first clause keyword or the body
                j += 1
                while j < n and not (toks[j].kind == "id" and toks[j].text in ("requires", "ensures", "decreases", "recommends", "where")) and toks[j].text != "{":
                    if toks[j].text in ("(", "["):
                        j = match_close(toks, j)
                    elif toks[j].text == "<":
                        j = _angle_close(toks, j)
                    j += 1
            where = toks[j].kind == "id" and toks[j].text == "where"

            def body_at(q):
                if toks[q].text != "{":
                    return False
                c = match_close(toks, q)
                nx = c + 1
                return nx >= n or toks[nx].text in ITEM_START or toks[nx].kind == "comment"
            req, bj = _clauses(src, toks, j, body_at)
            impl = impl_stack[-1] if impl_stack else None
            rec = {"fn": name, "in": (impl[2] if impl else None)}
            ps = _params(src, toks, pa, pb, impl[2] if impl else None)
            if where or ps is None or (impl and impl[4]):
                skipped.append(dict(rec, why="where-clause / parameter shape"))
                i = bj
                continue
            decl, names = ps
            gens = ", ".join(g for g in ((impl[1] if impl else ""), fgen) if g.strip())
            # explicit turbofish with the function's own type parameters (not inferable when unused in the arguments)
            gnames = []
            gt = tokenize(fgen) if fgen.strip() else []
            for (a_, b_) in _split_top(gt, 0, len(gt)):
                ws = [x for x in gt[a_:b_] if x.kind not in ("comment", "ws")]
                if ws and ws[0].kind == "id" and ws[0].text != "const":
                    gnames.append(ws[0].text)
            fish = ("::<%s>" % ", ".join(gnames)) if gnames else ""
            if impl:
                callee = "<%s%s>::%s%s" % (impl[2], (" as " + impl[3]) if impl[3] else "", name, fish)
            else:
                callee = name + fish
            k = len(probes)
            reqt = re.sub(r"\bself\b", "verif_s", req)
            out.append("fn verif_sat_%d%s(%s)%s { let _ = %s(%s); assert(false); }" % (
                k, ("<" + gens + ">") if gens else "", decl, ("\n    requires " + reqt + ",\n") if reqt else "", callee, ", ".join(names)))
            probes.append(dict(rec, probe="verif_sat_%d" % k))
            i = bj
            continue
        # assume_specification
        if t.kind == "id" and t.text == "assume_specification":
            j = i + 1
            fgen = ""
            if toks[j].text == "<":
                e = _angle_close(toks, j)
                fgen = _txt(src, toks, j + 1, e)
                j = e + 1
            if toks[j].text != "[":
                i += 1
                continue
            ce = match_close(toks, j)
            path = _txt(src, toks, j + 1, ce)
            j = ce + 1
            if toks[j].text != "(":
                i = j
                continue
            pe = match_close(toks, j)
            pa, pb = j + 1, pe
            j = pe + 1
            if toks[j].text == "->":
                j += 1
                while j < n and not (toks[j].kind == "id" and toks[j].text in ("requires", "ensures", "decreases", "recommends", "where")) and toks[j].text != ";":
                    if toks[j].text in ("(", "["):
                        j = match_close(toks, j)
                    elif toks[j].text == "<":
                        j = _angle_close(toks, j)
                    j += 1
            where = toks[j].kind == "id" and toks[j].text == "where"
            req, bj = _clauses(src, toks, j, lambda q: toks[q].text == ";")
            rec = {"fn": re.sub(r"\s+", " ", path), "in": "assume_specification"}
            ps = _params(src, toks, pa, pb, None)
            if where or ps is None:
                skipped.append(dict(rec, why="where-clause / parameter shape"))
                i = bj
                continue
            decl, names = ps
            k = len(probes)
            # named lifetimes of the specification binder are elided in the probe (the call infers them)
            lts = re.findall(r"'([a-z_][a-z0-9_]*)\b", fgen)
            fgen = ", ".join(g.strip() for g in fgen.split(",") if g.strip() and not g.strip().startswith("'"))
            for lt in lts:
                if lt != "static":
                    path = re.sub(r"'%s\s*" % lt, "", path)
                    decl = re.sub(r"'%s\s*" % lt, "", decl)
            out.append("fn verif_sat_%d%s(%s)%s { let _ = %s(%s); assert(false); }" % (
                k, ("<" + fgen + ">") if fgen.strip() else "", decl, ("\n    requires " + req + ",\n") if req else "", path, ", ".join(names)))
            probes.append(dict(rec, probe="verif_sat_%d" % k))
            i = bj
            continue
        i += 1
    return "\n".join(out) + "\n", probes, skipped
