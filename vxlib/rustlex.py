"""Minimal Rust tokenizer + item locator used by the extractor.

It only needs to be good enough to (a) skip comments / string / char literals /
lifetimes, (b) match brackets, (c) find `struct|enum|type|fn|impl` items and
(d) compare token sequences whitespace-insensitively.  It never rewrites code:
callers copy byte ranges of the original file.
"""
import re
from collections import namedtuple

Tok = namedtuple("Tok", "kind text start end")  # kind: id num str chr life punct

_ID = re.compile(r"[A-Za-z_][A-Za-z0-9_]*")
_NUM = re.compile(r"[0-9][A-Za-z0-9_]*(?:\.[0-9][A-Za-z0-9_]*)?")
_PUNCT3 = ("<<=", ">>=", "...", "..=")
_PUNCT2 = ("::", "->", "=>", "==", "!=", "<=", ">=", "&&", "||", "+=", "-=", "*=", "/=",
           "%=", "^=", "&=", "|=", "<<", ">>", "..")


class LexError(Exception):
    pass


def tokenize(src, base=0):
    """Return list of Tok for src (comments dropped)."""
    toks = []
    i, n = 0, len(src)
    while i < n:
        c = src[i]
        if c.isspace():
            i += 1
            continue
        if src.startswith("//", i):
            j = src.find("\n", i)
            i = n if j < 0 else j
            continue
        if src.startswith("/*", i):
            depth, j = 1, i + 2
            while j < n and depth:
                if src.startswith("/*", j):
                    depth += 1
                    j += 2
                elif src.startswith("*/", j):
                    depth -= 1
                    j += 2
                else:
                    j += 1
            i = j
            continue
        # raw strings r"..", r#".."#, br#".."#
        m = re.match(r"b?r(#*)\"", src[i:i + 40])
        if m:
            hashes = m.group(1)
            close = '"' + hashes
            j = src.find(close, i + m.end())
            if j < 0:
                raise LexError("unterminated raw string at %d" % i)
            j += len(close)
            toks.append(Tok("str", src[i:j], base + i, base + j))
            i = j
            continue
        if c == '"' or (c == "b" and src.startswith('b"', i)):
            j = i + (2 if c == "b" else 1)
            while j < n and src[j] != '"':
                j += 2 if src[j] == "\\" else 1
            j += 1
            toks.append(Tok("str", src[i:j], base + i, base + j))
            i = j
            continue
        if c == "'" or (c == "b" and src.startswith("b'", i)):
            k = i + (1 if c == "b" else 0)
            # char literal or lifetime
            m = re.match(r"'(\\(?:x[0-9a-fA-F]{2}|u\{[0-9a-fA-F_]+\}|.)|[^\\'])'", src[k:k + 16], re.S)
            if m:
                j = k + m.end()
                toks.append(Tok("chr", src[i:j], base + i, base + j))
                i = j
                continue
            m = re.match(r"'[A-Za-z_][A-Za-z0-9_]*", src[k:])
            if m:
                j = k + m.end()
                toks.append(Tok("life", src[i:j], base + i, base + j))
                i = j
                continue
            raise LexError("bad quote at %d" % i)
        m = _ID.match(src, i)
        if m:
            j = m.end()
            # r#ident
            toks.append(Tok("id", src[i:j], base + i, base + j))
            i = j
            continue
        m = _NUM.match(src, i)
        if m:
            j = m.end()
            # do not swallow `1..2` : NUM regex requires digit after '.'
            toks.append(Tok("num", src[i:j], base + i, base + j))
            i = j
            continue
        for p in _PUNCT3:
            if src.startswith(p, i):
                toks.append(Tok("punct", p, base + i, base + i + 3))
                i += 3
                break
        else:
            for p in _PUNCT2:
                if src.startswith(p, i):
                    toks.append(Tok("punct", p, base + i, base + i + 2))
                    i += 2
                    break
            else:
                toks.append(Tok("punct", c, base + i, base + i + 1))
                i += 1
    return toks


OPEN = {"(": ")", "[": "]", "{": "}"}
CLOSE = {")", "]", "}"}


def match_close(toks, i):
    """toks[i] is an opening bracket; return index of its matching close."""
    assert toks[i].text in OPEN, toks[i]
    depth = 0
    for j in range(i, len(toks)):
        t = toks[j]
        if t.kind == "punct":
            if t.text in OPEN:
                depth += 1
            elif t.text in CLOSE:
                depth -= 1
                if depth == 0:
                    return j
    raise LexError("unbalanced bracket at token %d" % i)


def norm(toks):
    return [t.text for t in toks]


def find_seq(hay, needle):
    """All start indices where token-text list needle occurs in hay (list of Tok)."""
    ht = [t.text for t in hay]
    res = []
    n = len(needle)
    if n == 0:
        return res
    for i in range(len(ht) - n + 1):
        if ht[i] == needle[0] and ht[i:i + n] == needle:
            res.append(i)
    return res


def line_of(src, off):
    return src.count("\n", 0, off) + 1


class SourceFile:
    def __init__(self, path, text):
        self.path = path
        self.text = text
        self.toks = tokenize(text)

    # ---- generic helpers -------------------------------------------------
    def _item_start(self, i):
        """Walk back from token i over `pub`, `pub(crate)`, attributes."""
        toks = self.toks
        j = i
        while j > 0:
            p = toks[j - 1]
            if p.text == "pub" and p.kind == "id":
                j -= 1
                continue
            if p.text == ")" and j >= 4 and toks[j - 4].text == "pub" and toks[j - 3].text == "(":
                j -= 4
                continue
            if p.text == "]":
                # find matching '['
                depth = 0
                k = j - 1
                while k >= 0:
                    if toks[k].text == "]":
                        depth += 1
                    elif toks[k].text == "[":
                        depth -= 1
                        if depth == 0:
                            break
                    k -= 1
                if k >= 1 and toks[k - 1].text == "#":
                    j = k - 1
                    continue
            break
        return j

    def depth_map(self):
        if hasattr(self, "_depth"):
            return self._depth
        d, out = 0, []
        for t in self.toks:
            if t.kind == "punct" and t.text == "}":
                d -= 1
            out.append(d)
            if t.kind == "punct" and t.text == "{":
                d += 1
        self._depth = out
        return out

    # ---- type items --------------------------------------------------------
    def find_type(self, kind, name):
        """Return (start_off, end_off, attr_start_tok, kw_tok, end_tok) of `kind name` item at brace depth 0."""
        toks, depth = self.toks, self.depth_map()
        hits = []
        for i in range(len(toks) - 1):
            if toks[i].kind == "id" and toks[i].text == kind and toks[i + 1].text == name and depth[i] == 0:
                # make sure it's a definition (next is `{`, `<`, `(`, `;`, `=` or `where`)
                nxt = toks[i + 2].text if i + 2 < len(toks) else ""
                if nxt in ("{", "<", "(", ";", "=", "where", ":"):
                    hits.append(i)
        if len(hits) != 1:
            raise KeyError("%s: expected exactly one `%s %s`, found %d" % (self.path, kind, name, len(hits)))
        i = hits[0]
        s = self._item_start(i)
        # end: first `{`..match or `;` at same level
        j = i + 2
        while True:
            t = toks[j]
            if t.text == "{":
                e = match_close(toks, j)
                break
            if t.text == "(":
                j = match_close(toks, j) + 1
                continue
            if t.text == ";":
                e = j
                break
            j += 1
        return s, i, e

    # ---- impl blocks / functions ----------------------------------------------
    def impl_blocks(self):
        """Yield (header_text_normalised, open_brace_tok_index, close_idx)."""
        toks, depth = self.toks, self.depth_map()
        res = []
        i = 0
        while i < len(toks):
            t = toks[i]
            if t.kind == "id" and t.text == "impl" and depth[i] in (0, 1):
                # header until '{' at same depth (skip generics etc. — no braces in headers here)
                j = i
                while toks[j].text != "{":
                    j += 1
                hdr = " ".join(x.text for x in toks[i:j])
                hdr = _squash(hdr)
                e = match_close(toks, j)
                res.append((hdr, i, j, e))
                i = j + 1
                continue
            i += 1
        return res

    def find_fn(self, scope, name):
        """scope: 'free' or the normalised impl header (e.g. 'impl CaretPos',
        'impl PartialOrd for CaretPos').  Returns dict with token indices."""
        toks, depth = self.toks, self.depth_map()
        if scope == "free":
            lo, hi, want_depth = 0, len(toks), None
        else:
            want = _squash(scope)
            blocks = [b for b in self.impl_blocks() if b[0] == want]
            if len(blocks) < 1:
                raise KeyError("%s: expected an `%s` block, found none (have: %s)" % (
                    self.path, scope, [b[0] for b in self.impl_blocks()]))
            if len(blocks) > 1:
                # several blocks with the same header: the function must be in exactly one of them
                owners = []
                for b in blocks:
                    wd = depth[b[2]] + 1
                    if any(toks[i].kind == "id" and toks[i].text == "fn" and toks[i + 1].text == name and depth[i] == wd
                           for i in range(b[2] + 1, b[3] - 1)):
                        owners.append(b)
                if len(owners) != 1:
                    raise KeyError("%s: fn `%s` found in %d of the %d `%s` blocks" % (self.path, name, len(owners), len(blocks), scope))
                blocks = owners
            _, _, ob, cb = blocks[0]
            lo, hi, want_depth = ob + 1, cb, depth[ob] + 1
        hits = []
        for i in range(lo, hi - 1):
            if toks[i].kind == "id" and toks[i].text == "fn" and toks[i + 1].text == name:
                if scope == "free":
                    # free fn: depth 0, or depth 1 inside a `mod` (not impl/trait) — keep depth 0 only
                    if depth[i] != 0:
                        continue
                elif depth[i] != want_depth:
                    continue
                hits.append(i)
        if len(hits) != 1:
            raise KeyError("%s: expected exactly one fn `%s` in `%s`, found %d" % (self.path, name, scope, len(hits)))
        i = hits[0]
        # body open brace: first '{' after params at bracket depth 0
        j = i + 2
        while True:
            t = toks[j]
            if t.text in ("(", "["):
                j = match_close(toks, j) + 1
                continue
            if t.text == "{":
                break
            if t.text == ";":
                raise KeyError("%s: fn %s has no body" % (self.path, name))
            j += 1
        e = match_close(toks, j)
        return {"fn": i, "open": j, "close": e, "item_start": self._item_start(i)}


def _squash(s):
    s = re.sub(r"\s+", " ", s.strip())
    s = re.sub(r"\s*(::|<|>|,|&|\(|\)|\[|\])\s*", r"\1", s)
    return s
