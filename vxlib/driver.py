import concurrent.futures as cf
import hashlib
import json
import os
import re
import shutil
import subprocess
import sys
import time

from . import gen, verus

VERIF = os.path.dirname(os.path.dirname(os.path.abspath(__file__)))
REPO = os.environ.get("VERIF_REPO", "/repo")
BUILD = os.environ.get("VERIF_BUILD") or os.path.join(VERIF, "build")
CONTRACTS = os.path.join(VERIF, "contracts")
EVIDENCE = os.environ.get("VERIF_EVIDENCE_DIR") or os.path.join(VERIF, "evidence")
REPLAYS = os.path.join(BUILD, "replays")

SCAN_WORDS = ("assume(", "admit(", "external_body", "assume_specification", "verif_havoc", "external_fn_specification")


def load_props():
    with open(os.path.join(CONTRACTS, "props.json")) as f:
        return json.load(f)


def load_findings():
    p = os.path.join(VERIF, "known_findings.json")
    if not os.path.exists(p):
        return []
    with open(p) as f:
        return json.load(f).get("findings", [])


def verus_fn_name(crate, fn):
    """`impl PartialOrd for CaretPos::lt` -> crate::CaretPos::lt"""
    scope, _, name = fn["fn"].rpartition("::")
    name = fn["emitted_as"]
    if fn.get("module"):
        crate = "%s::%s" % (crate, fn["module"])
    if not scope:
        return "%s::%s" % (crate, name)
    ty = scope.split(" for ")[-1]
    ty = re.sub(r"^impl(<[^>]*>)?\s*", "", ty).strip()
    ty = re.sub(r"<.*$", "", ty)
    return "%s::%s::%s" % (crate, ty, name)


def trusted_scan(text):
    found = []
    in_comment = False
    for n, line in enumerate(text.split("\n"), 1):
        s = line.strip()
        if s.startswith("//"):
            continue
        for w in SCAN_WORDS:
            if w in s:
                found.append("%s @gen:%d: %s" % (w.rstrip("("), n, s[:160]))
                break
    return found


def probe_unit(uname, tag=""):
    """Reachability probes (thorough tier): a copy of every contracted function with `if <arbitrary> { assert(false); }`
    at its entry and after every statement.  Every probe must FAIL; a probe that verifies marks a program point the
    verifier considers unreachable — contradictory assumed contracts in front of it (vacuous proofs behind it) or
    genuinely dead code (listed in contracts/dead_points.json)."""
    t0 = time.time()
    tpl = os.path.join(CONTRACTS, uname.lower() + ".vx.rs")
    out = {"unit": uname.upper(), "ran": False, "probes": 0, "unreachable": [], "skipped_functions": [], "note": None}
    try:
        punit = gen.expand(tpl, REPO, vacuity="probe")
    except gen.GenError as e:
        out["note"] = "extraction failed: %s" % e
        return out
    crate = uname.lower() + tag + "_probe"
    punit.gen_path = os.path.join(BUILD, crate + ".rs")
    with open(punit.gen_path, "w") as f:
        f.write(punit.text())
    # every further error of a function costs another solver query with less slack: three times the unit's rlimit
    res = verus.run_verus(punit.gen_path, ["--multiple-errors", "2000", "--rlimit", str(3 * punit.rlimit)], timeout=3000)
    vs = verus.summarize(res)
    out["cmd"] = res["cmd"]
    if vs["tool_error"]:
        out["note"] = "probe run failed: " + vs["tool_error"]
        return out
    hit, rlimit_fns = set(), set()
    here = os.path.basename(punit.gen_path)
    for d in res["diags"]:
        if d.get("level") != "error":
            continue
        msg = d.get("message", "")
        for sp in d.get("spans", []):
            if os.path.basename(sp["file_name"]) != here:
                continue
            o = punit.locate(sp["byte_start"])
            if o.get("kind") == "probe" and sp.get("is_primary") and "assertion failed" in msg:
                hit.add(o["probe"])
            if re.search(r"rlimit|Resource limit|timed? ?out", msg) and o.get("fn"):
                rlimit_fns.add(o["fn"])
    dead = {}
    dp = os.path.join(CONTRACTS, "dead_points.json")
    if os.path.exists(dp):
        with open(dp) as f:
            dead = json.load(f)
    allowed = {(x["fn"], x["text"]) for x in dead.get(uname.upper(), [])}
    out["ran"], out["probes"] = True, len(punit.probes)
    for pr in punit.probes:
        if pr["id"] in hit:
            continue
        if pr["fn"] in rlimit_fns:
            if pr["fn"] not in out["skipped_functions"]:
                out["skipped_functions"].append(pr["fn"])
            continue
        # the source line the probe follows
        try:
            with open(os.path.join(REPO, pr["file"])) as f:
                text = f.read().splitlines()[pr["line"] - 1].strip()
        except Exception:
            text = ""
        pr2 = dict(pr, text=text)
        if (pr["fn"], text) in allowed:
            pr2["allowed"] = True
        out["unreachable"].append(pr2)
    out["wall_s"] = round(time.time() - t0, 2)
    return out


def sat_unit(uname, tag=""):
    """Satisfiability probes for the ASSUMED contracts of a unit (see vxlib/satprobe.py): every probe must fail."""
    from . import satprobe
    t0 = time.time()
    tpl = os.path.join(CONTRACTS, uname.lower() + ".vx.rs")
    out = {"unit": uname.upper(), "ran": False, "probes": 0, "skipped": [], "unsatisfiable": [], "note": None}
    try:
        unit = gen.expand(tpl, REPO)
    except gen.GenError as e:
        out["note"] = "extraction failed: %s" % e
        return out
    text = unit.text()
    ptxt, probes, skipped = satprobe.generate(text)
    k = text.rfind("} // verus!")
    if k < 0:
        out["note"] = "no `} // verus!` line in the template"
        return out
    crate = uname.lower() + tag + "_sat"
    path = os.path.join(BUILD, crate + ".rs")
    with open(path, "w") as f:
        f.write(text[:k] + "\n// ---- satisfiability probes of the assumed contracts (each must FAIL) ----\n" + ptxt + text[k:])
    res = verus.run_verus(path, ["--multiple-errors", "1", "--rlimit", str(unit.rlimit)], timeout=1800)
    vs = verus.summarize(res)
    out["cmd"] = res["cmd"]
    out["skipped"] = skipped
    if vs["tool_error"]:
        msgs = [d.get("rendered", "")[:600] for d in res["diags"] if d.get("level") == "error"][:3]
        out["note"] = "probe file rejected: " + vs["tool_error"] + " | " + " | ".join(msgs)
        return out
    ok = {f["function"].split("::")[-1] for f in vs["functions"] if f["success"]}
    seen = {f["function"].split("::")[-1] for f in vs["functions"]}
    out["ran"], out["probes"] = True, len(probes)
    for pr in probes:
        if pr["probe"] in ok or pr["probe"] not in seen:
            out["unsatisfiable"].append(dict(pr, reported=pr["probe"] in seen))
    out["wall_s"] = round(time.time() - t0, 2)
    return out


def verify_unit(uname, extra=(), want_vac=True, tag=""):
    """Expand unit from REPO's working tree and run Verus (main + vacuity)."""
    t0 = time.time()
    tpl = os.path.join(CONTRACTS, uname.lower() + ".vx.rs")
    out = {"unit": uname.upper(), "template": tpl, "gen_error": None}
    os.makedirs(BUILD, exist_ok=True)
    try:
        unit = gen.expand(tpl, REPO)
        vunit = gen.expand(tpl, REPO, vacuity=True) if want_vac else None
    except gen.GenError as e:
        out["gen_error"] = str(e)
        out["wall_s"] = round(time.time() - t0, 2)
        return out
    crate = uname.lower() + tag
    unit.gen_path = os.path.join(BUILD, crate + ".rs")
    with open(unit.gen_path, "w") as f:
        f.write(unit.text())
    jobs = {}
    with cf.ThreadPoolExecutor(max_workers=2) as ex:
        jobs["main"] = ex.submit(verus.run_verus, unit.gen_path, ["--multiple-errors", "5", "--rlimit", str(unit.rlimit)] + list(extra))
        if want_vac:
            vunit.gen_path = os.path.join(BUILD, crate + "_vac.rs")
            with open(vunit.gen_path, "w") as f:
                f.write(vunit.text())
            jobs["vac"] = ex.submit(verus.run_verus, vunit.gen_path, ["--multiple-errors", "1", "--rlimit", str(max(2, unit.rlimit // 4))])
        res = {k: v.result() for k, v in jobs.items()}
    main = res["main"]
    summ = verus.summarize(main)
    failures, undecided = verus.classify(main, unit)
    out.update({
        "unit_obj": unit, "crate": crate,
        "functions": unit.functions, "types": unit.types, "clauses": unit.clauses,
        "edits": unit.edits, "macro_rewrites": unit.macro_rewrites, "hints_lost": unit.hints_lost,
        "assumption_changed": unit.assumption_changed, "assume_pins": unit.assume_pins,
        "count_only": unit.count_only, "extract_failed": unit.extract_failed,
        "summary": summ, "failures": failures, "undecided": undecided,
        "cmd": main["cmd"], "trusted_scan": trusted_scan(unit.text()),
        "raw_err": main["raw_err"] if summ["tool_error"] else "",
    })
    # names
    for fn in unit.functions:
        fn["verus_name"] = verus_fn_name(crate, fn)
    # vacuity
    vac = {"ran": want_vac, "ok": True, "still_verifying": [], "cmd": None}
    if want_vac:
        vs = verus.summarize(res["vac"])
        vac["cmd"] = res["vac"]["cmd"]
        if vs["tool_error"]:
            vac["ok"] = False
            vac["still_verifying"] = ["vacuity run failed: " + vs["tool_error"]]
        else:
            okset = {f["function"] for f in vs["functions"] if f["success"]}
            seen = {f["function"] for f in vs["functions"]}
            for fn in vunit.functions:
                if not fn.get("vac_copy") or fn.get("novac"):
                    continue
                vn = verus_fn_name(crate + "_vac", fn)
                if vn in okset or vn not in seen:
                    vac["ok"] = False
                    vac["still_verifying"].append(fn["fn"] + (" (not reported)" if vn not in seen else ""))
            vac["probes"] = len([f for f in vunit.functions if f.get("vac_copy")])
    out["vacuity"] = vac
    out["wall_s"] = round(time.time() - t0, 2)
    return out


def second_opinion(u, failure):
    """Re-verify the failing function alone with 10x rlimit and 3 seeds.
    True if the failure is stable (still fails everywhere)."""
    unit = u["unit_obj"]
    fnq = failure.get("fn")
    target = None
    for fn in u["functions"]:
        if fn["fn"] == fnq:
            target = fn["verus_name"]
    if target is None:
        return True, []
    short = target.split("::", 1)[1]
    runs = []
    for seed in (0, 1):
        r = verus.run_verus(unit.gen_path, ["--verify-root", "--verify-function", short, "--rlimit", str(3 * unit.rlimit),
                                            "--smt-option", "smt.random_seed=%d" % seed, "--multiple-errors", "5"])
        s = verus.summarize(r)
        fl, _ = verus.classify(r, unit)
        same = [x for x in fl if x.get("fn") == fnq and x.get("label") == failure.get("label") and x["kind"] == failure["kind"]]
        runs.append({"seed": seed, "still_fails": bool(same), "tool_error": s["tool_error"]})
        if not same and not s["tool_error"]:
            return False, runs
    return True, runs


def obligation_name(u, f):
    fn = f.get("fn", "?")
    fn = re.sub(r"^impl(<[^>]*>)?\s*", "", fn)
    return "%s::%s::%s" % (u["unit"], fn, f.get("label") or f["kind"])


def relevant_functions(u, pid):
    """functions carrying a clause tagged `pid`, plus everything they (transitively) call inside the unit"""
    by_name = {}
    for fn in u["functions"]:
        by_name.setdefault(fn["emitted_as"], []).append(fn)
    rel = set()
    work = []
    if pid == "C03":
        # every contracted function carries implicit C03 obligations (overflow, bounds, unwrap, panic, termination)
        return {fn["fn"] for fn in u["functions"]}
    tagged = {c["fn"] for c in u["clauses"] if pid in c["props"] or not c["props"]}
    for fn in u["functions"]:
        if fn["fn"] in tagged or pid in fn.get("props", []):
            work.append(fn)
    while work:
        fn = work.pop()
        if fn["fn"] in rel:
            continue
        rel.add(fn["fn"])
        for callee in fn.get("calls", []):
            for g in by_name.get(callee, []):
                if g["fn"] not in rel:
                    work.append(g)
    return rel


def props_of_failure(f, fnmeta, unit_props):
    if f.get("props"):
        return f["props"]
    if fnmeta and fnmeta.get("props"):
        return fnmeta["props"]
    if f["kind"] in ("overflow", "divzero", "panic") or (f["kind"] == "pre" and not f.get("props")):
        p = ["C03"] if "C03" in unit_props else list(unit_props)
        return p
    return list(unit_props)


def cmd_unit(args):
    uname = args[0]
    u = verify_unit(uname, want_vac="--vac" in args)
    if u["gen_error"]:
        print("GEN ERROR:", u["gen_error"])
        return 2
    s = u["summary"]
    print("unit %s: verified=%d errors=%d ok=%s tool_error=%s smt=%dms wall=%.1fs" % (
        u["unit"], s["verified"], s["errors"], s["ok"], s["tool_error"], s["smt_ms"], u["wall_s"]))
    for fq, msgs in (u.get("hints_lost") or {}).items():
        for m in msgs:
            print("HINT-LOST %s: %s" % (fq, m))
    for fq, msg in (u.get("extract_failed") or {}).items():
        print("EXTRACT-FAILED %s: %s" % (fq, msg))
    for msg in (u.get("assumption_changed") or []):
        print("ASSUMPTION-CHANGED %s" % msg)
    for f in u["failures"]:
        print("FAIL  %-60s %s  [%s]" % (obligation_name(u, f), f["message"], ",".join(f.get("props", []))))
        print(f["rendered"])
    for f in u["undecided"]:
        print("UNDEC %s" % f["message"])
        print(f["rendered"])
    if s["tool_error"]:
        print(u["raw_err"][-3000:])
    if "--vac" in args:
        print("vacuity:", u["vacuity"])
    if "--sat" in args:
        sr = sat_unit(uname)
        print("sat probes: ran=%s n=%d skipped=%d wall=%ss note=%s" % (sr["ran"], sr["probes"], len(sr["skipped"]), sr.get("wall_s"), sr["note"]))
        for x in sr["unsatisfiable"]:
            print("  UNSATISFIABLE assumed contract: %s (in %s)%s" % (x["fn"], x["in"], "" if x["reported"] else " [not reported by verus]"))
        for x in sr["skipped"]:
            print("  skipped: %s (in %s): %s" % (x["fn"], x["in"], x["why"]))
    if "--probes" in args:
        pr = probe_unit(uname)
        print("probes: ran=%s n=%d wall=%ss note=%s skipped=%s" % (pr["ran"], pr["probes"], pr.get("wall_s"), pr["note"], pr["skipped_functions"]))
        for x in pr["unreachable"]:
            print("  UNREACHABLE%s %s  %s:%d  after `%s`" % (" (listed as dead code)" if x.get("allowed") else "", x["fn"], x["file"], x["line"], x["text"]))
    for f in s["functions"]:
        if not f["success"]:
            print("  failed fn:", f["function"])
    return 0 if s["ok"] else 1


# ------------------------------------------------------------------------------------------------
def git_head(path):
    try:
        return subprocess.run(["git", "-C", path, "rev-parse", "--short", "HEAD"], capture_output=True, text=True).stdout.strip()
    except Exception:
        return "?"


def write_replay(pid, name, payload):
    os.makedirs(REPLAYS, exist_ok=True)
    slug = re.sub(r"[^A-Za-z0-9_.-]+", "_", name)[:120]
    p = os.path.join(REPLAYS, "%s__%s.json" % (pid, slug))
    with open(p, "w") as f:
        json.dump(payload, f, indent=1)
    return p


def cmd_check(args):
    t0 = time.time()
    pid = args[0]
    tier = "quick"
    if "--tier" in args:
        tier = args[args.index("--tier") + 1]
    tier = os.environ.get("VERIF_TIER", tier)
    seed = int(os.environ.get("VERIF_SEED", "0") or 0)
    props = load_props()
    if pid not in props:
        print("unknown property", pid)
        return 2
    cfg = props[pid]
    findings = [f for f in load_findings() if f["property"] == pid]
    units = cfg["units"]
    unit_users = {}
    for p, c in props.items():
        for un in c["units"]:
            unit_users.setdefault(un.upper(), []).append(p)

    results = {}
    with cf.ThreadPoolExecutor(max_workers=max(1, len(units))) as ex:
        futs = {un: ex.submit(verify_unit, un, (), True, "_" + pid.lower()) for un in units}
        for un, fu in futs.items():
            results[un] = fu.result()

    violations, known, undecided_msgs, resolved, notes = [], [], [], [], []
    obligations = discharged = 0
    samples, fns_under_contract, trusted, checker_cmds, edits, macro_rw, clause_list = [], [], [], [], [], [], []
    smt_ms = 0
    for un in units:
        u = results[un]
        if u["gen_error"]:
            undecided_msgs.append("%s: extraction failed: %s" % (un.upper(), u["gen_error"]))
            continue
        s = u["summary"]
        checker_cmds.append("(cd /verif/build && %s)" % u["cmd"])
        if u["vacuity"]["cmd"]:
            checker_cmds.append("(cd /verif/build && %s)  # vacuity: every contracted fn must FAIL" % u["vacuity"]["cmd"])
        if s["tool_error"]:
            undecided_msgs.append("%s: verifier could not process the extracted file: %s" % (un.upper(), s["tool_error"]))
            continue
        smt_ms += s["smt_ms"]
        kf_fns = {fn["verus_name"]: fn for fn in u["functions"] if fn.get("kf")}
        crate = u["crate"]
        relevant = relevant_functions(u, pid)
        by_vname = {fn["verus_name"]: fn for fn in u["functions"]}
        for f in s["functions"]:
            if not f["function"].startswith(crate + "::"):
                continue
            if f["function"] in kf_fns:
                continue
            if f["function"] in by_vname and by_vname[f["function"]]["fn"] not in relevant:
                continue   # a contracted function that no clause of this property depends on
            if u.get("count_only") is not None and f["function"].split("::")[-1] not in u["count_only"]:
                continue   # shared text re-verified in this unit; counted in the unit that owns it
            obligations += 1
            if f["success"]:
                discharged += 1
            if len(samples) < 400:
                samples.append({"obligation": "%s::%s" % (u["unit"], f["function"].split("::", 1)[1]),
                                "mode": f["mode"], "backend": "verus/z3", "discharged": f["success"],
                                "smt_us": f["time_us"], "rlimit": f["rlimit"]})
        for fn in u["functions"]:
            if fn.get("kf") or fn["fn"] not in relevant or fn.get("stub"):
                continue
            if u.get("count_only") is not None and fn["emitted_as"] not in u["count_only"]:
                continue
            fns_under_contract.append({k: fn[k] for k in ("unit", "fn", "file", "line", "end_line", "body_sha256")})
        trusted.extend("%s: %s" % (u["unit"], t) for t in u["trusted_scan"])
        edits.extend(u["edits"])
        macro_rw.extend(u["macro_rewrites"])
        clause_list.extend("%s::%s::%s" % (u["unit"], re.sub(r"^impl(<[^>]*>)?\s*", "", c["fn"]), c["label"]) for c in u["clauses"])
        if not u["vacuity"]["ok"]:
            undecided_msgs.append("%s: vacuity guard: these contracted functions still verify with `ensures false`: %s" % (
                un.upper(), u["vacuity"]["still_verifying"]))
        fnmeta = {fn["fn"]: fn for fn in u["functions"]}
        kf_expected = {fn["kf"]: fn for fn in u["functions"] if fn.get("kf")}
        kf_seen = set()
        for fq, msg in u.get("extract_failed", {}).items():
            if fq in relevant_functions(u, pid):
                undecided_msgs.append("%s: %s could not be extracted (%s): emitted as an assumed stub, its own obligations are undecided" % (
                    u["unit"], fq, msg[:240]))
        for msg in u.get("assumption_changed", []):
            undecided_msgs.append("%s: ASSUMED contract out of date — %s: everything proved against it is undecided until it is reviewed (tools/setpins.py)" % (u["unit"], msg))
        for fq, msgs in u.get("hints_lost", {}).items():
            if fq in relevant_functions(u, pid):
                undecided_msgs.append("%s: proof scaffolding of %s no longer matches the code (%s); its obligations are undecided" % (
                    u["unit"], fq, msgs[0]))
        for f in u["failures"]:
            meta = fnmeta.get(f.get("fn"))
            name = obligation_name(u, f)
            if f.get("fn") in u.get("hints_lost", {}):
                continue   # undecided, reported above
            if u.get("count_only") is not None and meta and meta["emitted_as"] not in u["count_only"]:
                continue   # shared text re-verified here; the owning unit reports it
            if meta and meta.get("kf"):
                kf_seen.add(meta["kf"])
                continue
            fprops = props_of_failure(f, meta, unit_users.get(u["unit"], []))
            f["obligation"] = name
            if fprops == ["-"]:
                undecided_msgs.append("%s fails: a support clause (states what the code computes so that callers can be verified; not a property clause): %s" % (name, f["message"]))
            elif pid in fprops:
                violations.append((u, f))
            elif f.get("fn") not in relevant:
                notes.append("%s fails (obligation of %s in a function no %s clause depends on): not this property's concern" % (
                    name, ",".join(fprops), pid))
            else:
                undecided_msgs.append("%s fails (an obligation of %s that this property's lemmas rest on): %s" % (
                    name, ",".join(fprops), f["message"]))
        for f in u["undecided"]:
            where = f.get("primary") or {}
            undecided_msgs.append("%s: %s (%s, template line %s)" % (un.upper(), f["message"], where.get("kind"), where.get("tline")))
        for kid, fn in kf_expected.items():
            ent = [x for x in findings if x.get("id") == kid]
            if not ent:
                continue   # this KF belongs to another property
            ent = ent[0]
            if ent["status"] == "finding":
                if kid in kf_seen:
                    known.append(ent)
                else:
                    resolved.append(ent)

    # second opinion before any alarm
    confirmed = []
    seen_obl = set()
    uniq = []
    for (u, f) in violations:
        if f["obligation"] in seen_obl:
            continue
        seen_obl.add(f["obligation"])
        uniq.append((u, f))
    violations = uniq
    for (u, f) in violations:
        stable, runs = second_opinion(u, f)
        f["second_opinion"] = runs
        if stable:
            confirmed.append((u, f))
        else:
            undecided_msgs.append("%s: failed once but verified with a larger resource limit / other seed: unstable proof, not an alarm" % f["obligation"])

    # thorough tier extras
    thorough_info = {}
    if tier == "thorough":
        from . import thorough
        thorough_info = thorough.run(pid, cfg, results, seed)
        undecided_msgs.extend(thorough_info.pop("undecided", []))
        for v in thorough_info.pop("violations", []):
            confirmed.append(v)

    # extra (non-Verus) sub-checks registered for this property
    extra_info = {}
    if cfg.get("extra"):
        from . import extra
        for ename in cfg["extra"]:
            ei = getattr(extra, ename)(pid, cfg, results, tier, seed)
            extra_info[ename] = ei.get("info", {})
            undecided_msgs.extend(ei.get("undecided", []))
            for v in ei.get("violations", []):
                confirmed.append(v)
            obligations += ei.get("obligations", 0)
            discharged += ei.get("discharged", 0)
            samples.extend(ei.get("samples", []))
            checker_cmds.extend(ei.get("cmds", []))
            trusted.extend(ei.get("trusted", []))
            for k in ei.get("known", []):
                known.append(k)

    # a Verus failure on a function that also carries a Kani contract inherits Kani's concrete counterexample
    kani_cases = {}
    for (u, f) in confirmed:
        if f.get("kind") == "kani" and f.get("case"):
            kani_cases[f.get("fn")] = f
    for (u, f) in confirmed:
        if f.get("kind") != "kani" and not f.get("case"):
            short = re.sub(r"^impl(<[^>]*>)?\s*", "", f.get("fn") or "")
            short = short.split(" for ")[-1]
            if short in kani_cases:
                f["case"] = kani_cases[short]["case"]
                f["counterexample"] = "from Kani harness for %s" % short
    wall = round(time.time() - t0, 2)
    lines = []
    rc = 0
    for ent in known:
        lines.append("KNOWN-FINDING: property=%s %s" % (pid, ent["what"]))
    for ent in resolved:
        lines.append("KNOWN-FINDING-RESOLVED: property=%s %s (the expected-to-fail obligation now verifies; turn the entry into `fixed`)" % (pid, ent["what"]))
    nviol = 0
    for (u, f) in confirmed:
        nviol += 1
        payload = {
            "property": pid, "obligation": f["obligation"], "unit": u["unit"] if isinstance(u, dict) else str(u),
            "kind": f["kind"], "message": f["message"], "verifier_output": f.get("rendered", ""),
            "repo": REPO, "repo_head": git_head(REPO),
            "location": f.get("at") or f.get("primary"), "second_opinion": f.get("second_opinion"),
            "case": f.get("case"), "counterexample": f.get("counterexample"),
        }
        path = write_replay(pid, f["obligation"], payload)
        tail = "" if f.get("case") else " no-failing-input-found"
        lines.append("VIOLATION property=%s replay=%s obligation=%s%s" % (pid, path, f["obligation"], tail))
        rc = 1
    if rc == 0 and undecided_msgs:
        rc = 2
    for m in undecided_msgs:
        lines.append("UNDECIDED: " + m)
    for m in notes:
        lines.append("NOTE: " + m)

    level_ok = (obligations > 0 and obligations == discharged and rc == 0)
    ev = {
        "property_id": pid, "tier": tier, "seed": seed,
        "level": "proof" if level_ok else "other",
        "coverage": {
            "obligations": obligations, "discharged": discharged,
            "checker_cmd": " ; ".join(checker_cmds) or "none",
            "trusted_base": sorted(set(trusted)) + cfg.get("trusted_base", []),
            "samples": samples[:400],
            "explanation": cfg.get("scope", "") + (" | RESULT: " + "; ".join(lines) if lines else " | RESULT: all obligations discharged"),
            "obligation_unit": "one per Verus function-level query (exec function against its contract incl. every implicit overflow/bounds/unwrap/precondition check, or proof fn) + one per Kani harness where listed",
            "contract_clauses": clause_list,
            "functions_under_contract": fns_under_contract,
            "extraction_edits": edits, "macro_rewrites": macro_rw,
            "assumed_repo_functions": sorted({q["key"] + " pin=" + str(q["pin"]) for un in units if not results[un].get("gen_error") for q in results[un].get("assume_pins", [])}),
            "backend": "Verus 0.2026.09.13 (Z3) single-file on text re-extracted from the working tree",
            "solver_time_ms": smt_ms,
            "vacuity_guard": {un.upper(): results[un].get("vacuity") for un in units if not results[un].get("gen_error")},
            "known_findings_reported": [e["id"] for e in known],
            "not_covered": cfg.get("not_covered", []),
            "repo_head": git_head(REPO),
            "thorough": thorough_info, "extra": extra_info,
        },
        "assumptions": cfg.get("assumptions", []),
        "wall_s": wall, "violations": nviol,
    }
    os.makedirs(EVIDENCE, exist_ok=True)
    with open(os.path.join(EVIDENCE, pid + ".json"), "w") as f:
        json.dump(ev, f, indent=1, default=str)
    for l in lines:
        print(l)
    print("%s tier=%s: %d/%d obligations discharged over %d functions under contract, %d known finding(s), %d violation(s), exit %d, %.1fs" % (
        pid, tier, discharged, obligations, len(fns_under_contract), len(known), nviol, rc, wall))
    return rc


def cmd_replay(args):
    from . import replay
    return replay.run(args[0])


def cmd_setup(args):
    os.makedirs(BUILD, exist_ok=True)
    os.makedirs(EVIDENCE, exist_ok=True)
    # warm Verus (first start is slow) — nothing is kept
    p = os.path.join(BUILD, "warm.rs")
    with open(p, "w") as f:
        f.write("use vstd::prelude::*;\nverus!{ proof fn t() ensures 1 + 1 == 2int {} }\nfn main(){}\n")
    r = verus.run_verus(p)
    ok = verus.summarize(r)["ok"]
    print("verus warm-up:", "ok" if ok else "FAILED")
    if not ok:
        print(r["raw_err"][-2000:])
        return 1
    from . import replay
    ok, log = replay.build()
    print("replay binary:", "built" if ok else "FAILED")
    if not ok:
        print(log[-3000:])
        return 1
    return 0


def main(argv):
    if not argv:
        print(__doc__)
        return 2
    cmd, args = argv[0], argv[1:]
    if cmd == "check":
        return cmd_check(args)
    if cmd == "unit":
        return cmd_unit(args)
    if cmd == "replay":
        return cmd_replay(args)
    if cmd == "setup":
        return cmd_setup(args)
    print("unknown command", cmd)
    return 2
