"""Replay: build/run the vxreplay binary against the real code; show replay files."""
import json
import os
import shutil
import subprocess

VERIF = os.path.dirname(os.path.dirname(os.path.abspath(__file__)))
REPO = os.environ.get("VERIF_REPO", "/repo")
SRC = os.path.join(VERIF, "replay")
BUILD = os.environ.get("VERIF_BUILD") or os.path.join(VERIF, "build")
CRATE = os.path.join(BUILD, "replay-crate")
TARGET = os.path.join(BUILD, "replay-target")
BIN = os.path.join(TARGET, "debug", "vxreplay")
_built = {}


def build():
    """(re)build vxreplay against REPO's working tree with the hook guard on. Returns (ok, log)."""
    if REPO in _built:
        return _built[REPO]
    if not os.path.exists(os.path.join(REPO, "Cargo.toml")):
        _built[REPO] = (False, "%s is not a full crate (no Cargo.toml): replay unavailable" % REPO)
        return _built[REPO]
    os.makedirs(os.path.join(CRATE, "src"), exist_ok=True)
    # Build against a CONTENT-synchronised copy of the working tree (rsync -c, no mtime preservation): cargo's
    # freshness check is mtime based, so a tree restored with older mtimes would otherwise leave a stale binary.
    copy = os.path.join(BUILD, "replay-repo")
    os.makedirs(copy, exist_ok=True)
    q = subprocess.run(["rsync", "-rlpc", "--delete", "--exclude", "target", "--exclude", ".git",
                        REPO.rstrip("/") + "/", copy + "/"], capture_output=True, text=True)
    if q.returncode != 0:
        _built[REPO] = (False, "rsync failed: " + q.stderr[-500:])
        return _built[REPO]
    main_src = open(os.path.join(SRC, "src", "main.rs")).read()
    main_dst = os.path.join(CRATE, "src", "main.rs")
    if not os.path.exists(main_dst) or open(main_dst).read() != main_src:
        with open(main_dst, "w") as f:
            f.write(main_src)
    with open(os.path.join(SRC, "Cargo.toml")) as f:
        toml = f.read().replace('path = "/repo"', 'path = "%s"' % copy)
    ct = os.path.join(CRATE, "Cargo.toml")
    if not os.path.exists(ct) or open(ct).read() != toml:
        with open(ct, "w") as f:
            f.write(toml)
    lock_src = open(os.path.join(REPO, "Cargo.lock")).read()
    lk = os.path.join(CRATE, "Cargo.lock")
    if not os.path.exists(lk):
        with open(lk, "w") as f:
            f.write(lock_src)
    env = dict(os.environ, CARGO_NET_OFFLINE="true")
    p = subprocess.run(["cargo", "build", "--offline", "--manifest-path", os.path.join(CRATE, "Cargo.toml"),
                        "--target-dir", TARGET], capture_output=True, text=True, env=env)
    _built[REPO] = (p.returncode == 0, p.stderr[-4000:])
    return _built[REPO]


def call(args, timeout=120):
    ok, log = build()
    if not ok:
        return None, "replay binary did not build:\n" + log
    try:
        p = subprocess.run([BIN] + [str(a) for a in args], capture_output=True, text=True, timeout=timeout)
    except subprocess.TimeoutExpired:
        return None, "replay timed out"
    return p.returncode, p.stdout + (("\nSTDERR: " + p.stderr[-2000:]) if p.returncode not in (0, 1) else "")


def run_case(case, workdir=None):
    """case = {kind: lex|spans|pipeline|project|relex|caret, input: str | files: [[name, text]..], annotate: bool, ...} -> (rc, output)"""
    workdir = workdir or os.path.join(BUILD, "replays")
    os.makedirs(workdir, exist_ok=True)
    k = case["kind"]
    if k in ("lex", "spans", "pipeline"):
        path = os.path.join(workdir, "case_input_%d.mamba" % os.getpid())
        with open(path, "w", newline="") as f:
            f.write(case["input"])
        if k == "pipeline":
            return call(["pipeline", path, "1" if case.get("annotate") else "0"])
        return call([k, path])
    if k == "project":
        import shutil
        d = os.path.join(workdir, "case_project_%d" % os.getpid())
        shutil.rmtree(d, ignore_errors=True)
        os.makedirs(d)
        for name, text in case["files"]:
            with open(os.path.join(d, name), "w", newline="") as f:
                f.write(text)
        r = call(["project", d])
        shutil.rmtree(d, ignore_errors=True)
        return r
    if k == "transpile":
        # files: [[relative path under the project dir, text]..]; returns the verdict line(s) + the tree of the output directory
        import shutil
        d = os.path.join(workdir, "case_transpile_%d" % os.getpid())
        shutil.rmtree(d, ignore_errors=True)
        for rel, text in case["files"]:
            fp = os.path.join(d, rel)
            os.makedirs(os.path.dirname(fp), exist_ok=True)
            with open(fp, "w", newline="") as f:
                f.write(text)
        rc, txt = call(["transpile", d, case.get("src") or "-", case.get("target") or "-"])
        out_dir = os.path.join(d, case.get("target") or "target")
        tree = []
        for dp, dn, fns in os.walk(d):
            for fn in fns:
                rel = os.path.relpath(os.path.join(dp, fn), d)
                if not any(rel == r for r, _ in case["files"]):
                    tree.append(rel)
        shutil.rmtree(d, ignore_errors=True)
        return rc, (txt or "") + "".join("\nWROTE|%s" % t for t in sorted(tree))
    if k == "relex":
        return call(["relex"])
    if k == "caret":
        return call(["caret", case["op"]] + list(case["values"]))
    return None, "unknown case kind " + k


def run(path):
    with open(path) as f:
        r = json.load(f)
    print("property   :", r.get("property"))
    print("obligation :", r.get("obligation"))
    print("kind       :", r.get("kind"), "-", r.get("message"))
    print("location   :", r.get("location"))
    print("verifier output:\n" + (r.get("verifier_output") or ""))
    if not r.get("case"):
        print("no concrete input was produced by the verifier (Verus gives no counterexample): no-failing-input-found")
        return 1
    rc, out = run_case(r["case"])
    print("replay of the concrete case on the real code (rc=%s):\n%s" % (rc, out))
    exp = r["case"].get("expected")
    if exp is not None:
        ok = exp in (out or "")
        print("contract expects: %s -> %s" % (exp, "real code agrees (not reproduced)" if ok else "VIOLATION REPRODUCED on the real code"))
        return 0 if ok else 1
    return 1 if rc != 0 else 0
