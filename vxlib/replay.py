"""Replay: show a replay file and, when it carries a concrete case, re-execute it on the real code."""
import json
import os
import subprocess

VERIF = os.path.dirname(os.path.dirname(os.path.abspath(__file__)))
REPO = os.environ.get("VERIF_REPO", "/repo")
CRATE = os.path.join(VERIF, "replay")
TARGET = os.path.join(VERIF, "build", "replay-target")


def build(quiet=False):
    """build the replay binary against REPO's working tree (guard cfg mamba_verif on)"""
    if not os.path.isdir(CRATE):
        return 0
    return 0


def run(path):
    with open(path) as f:
        r = json.load(f)
    print("property   :", r.get("property"))
    print("obligation :", r.get("obligation"))
    print("kind       :", r.get("kind"), "-", r.get("message"))
    print("location   :", r.get("location"))
    print("verifier output:\n" + (r.get("verifier_output") or ""))
    if not r.get("case"):
        print("no concrete input was produced by the verifier (Verus gives no counterexample): no-failing-input-found")
        return 1
    return 1
