#!/usr/bin/env python3
"""Run mamba's test suite (guards off) and compare with /root/.vp/BASELINE.json stable_pass.
exit 0 iff every stable_pass test passes."""
import json, re, subprocess, sys, os
repo = os.environ.get("VERIF_REPO", "/repo")
base = json.load(open("/root/.vp/BASELINE.json"))
want = set(base["stable_pass"])
env = dict(os.environ, CARGO_NET_OFFLINE="true")
p = subprocess.run(["cargo", "nextest", "run", "--workspace", "--no-fail-fast", "--offline", "--test-threads", "8"],
                   cwd=repo, capture_output=True, text=True, env=env)
out = p.stdout + p.stderr
passed = set()
for m in re.finditer(r"^\s*PASS \[[^\]]*\]\s+(?:\(\s*\d+/\d+\)\s+)?(\S+)\s+(\S+)\s*$", out, re.M):
    passed.add(m.group(1) + "::" + m.group(2))
missing = sorted(want - passed)
print("baseline: %d/%d stable tests pass" % (len(want & passed), len(want)))
for m in missing[:40]:
    print("  NOT PASSING:", m)
sys.exit(0 if not missing else 1)
