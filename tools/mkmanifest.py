#!/usr/bin/env python3
"""Regenerate /verif/MANIFEST.json from contracts/props.json + contracts/na.json."""
import json, os, subprocess
V = os.path.dirname(os.path.dirname(os.path.abspath(__file__)))
props = json.load(open(os.path.join(V, "contracts/props.json")))
na = json.load(open(os.path.join(V, "contracts/na.json")))
all_ids = [json.loads(l)["id"] for l in open(os.path.join(V, "properties.jsonl")) if l.strip()]
hooks = [l.split()[0] for l in subprocess.run(["git", "-C", "/repo", "log", "--format=%h %s"], capture_output=True, text=True).stdout.splitlines() if " hook:" in l or l.split(" ", 1)[1].startswith("hook")]
fixes = [l for l in subprocess.run(["git", "-C", "/repo", "log", "--format=%h %s"], capture_output=True, text=True).stdout.splitlines() if l.split(" ", 1)[1].startswith("fix:")]
checks = []
for pid in all_ids:
    if pid not in props:
        continue
    c = props[pid]
    checks.append({
        "property_id": pid,
        "quick_cmd": "./vx check %s --tier quick" % pid,
        "thorough_cmd": "./vx check %s --tier thorough" % pid,
        "evidence_file": "/verif/evidence/%s.json" % pid,
        "replay_cmd_template": "./vx replay {path}",
        "engine": "vx",
        "level_claimed": {"category": "proof", "text": c["scope"], "design_ref": "DESIGN.md §4 " + pid},
        "level_note": "Trusted/assumed: " + " | ".join(c["assumptions"]) + " || NOT covered: " + "; ".join(c["not_covered"]),
        "technique": c.get("technique", "contract-based deductive verification: Verus requires/ensures/invariants on function bodies re-extracted verbatim from /repo each run, property lemmas over the contracts"),
    })
m = {
    "version": 1,
    "setup_cmd": "./vx setup",
    "hooks": {"guard": "cargo feature mamba_verif (off by default; replay hook module) and cfg(kani) (Kani contracts; set only by cargo kani)",
              "enable": "/verif/replay depends on /repo with features = [\"mamba_verif\"]; `cargo kani` sets cfg(kani) itself",
              "baseline_off_cmd": "/verif/tools/baseline.py", "source_commits": hooks, "add_only": True},
    "engines": [{"name": "vx", "path": "/verif/vx", "serves_properties": [c["property_id"] for c in checks],
                 "kind_free_text": "Python driver: mechanical verbatim extraction of real function bodies + contracts (contracts/*.vx.rs) -> single-file Verus; Kani function contracts in place for common/position.rs; classification of failed obligations; vacuity guard; replay; evidence writer"}],
    "checks": checks,
    "notes": "fix: commits in /repo: " + "; ".join(fixes) + ". See known_findings.json and DESIGN.md.",
    "not_applicable": [{"property_id": i, "reason": na[i]} for i in all_ids if i not in props],
}
json.dump(m, open(os.path.join(V, "MANIFEST.json"), "w"), indent=1)
print("MANIFEST: %d checks, %d not applicable" % (len(checks), len(m["not_applicable"])))
