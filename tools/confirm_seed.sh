#!/bin/bash
# usage: confirm_seed.sh <name> <patch.diff> <demo.rs>   — confirm a seeded change in a scratch worktree:
#   compiles, 538 baseline tests pass, demo FAILS with the change and PASSES without it.
set -u
name=$1; patch=$2; demo=$3
wt=/tmp/wtc_$name
out=/tmp/confirm_$name.log
: > $out
git -C /repo worktree remove --force $wt >/dev/null 2>&1
git -C /repo worktree add -q $wt HEAD || exit 3
cp -r /repo/target $wt/target 2>/dev/null
cd $wt
dn=$(basename $demo .rs)
cp $demo tests/$dn.rs
echo "== demo on unchanged tree" >> $out
cargo test --offline --test $dn >> $out 2>&1; rc_clean=$?
git apply $patch || { echo "patch does not apply" >> $out; echo "RESULT $name: PATCH-DOES-NOT-APPLY"; exit 3; }
echo "== build with patch" >> $out
cargo build --offline >> $out 2>&1; rc_build=$?
echo "== baseline with patch" >> $out
mv tests/$dn.rs /tmp/$dn.rs.hold
VERIF_REPO=$wt /verif/tools/baseline.py >> $out 2>&1; rc_base=$?
mv /tmp/$dn.rs.hold tests/$dn.rs
echo "== demo with patch" >> $out
cargo test --offline --test $dn >> $out 2>&1; rc_patched=$?
echo "RESULT $name: build=$rc_build baseline=$rc_base demo_clean=$rc_clean demo_patched=$rc_patched  (want 0 0 0 nonzero)"
cd /; git -C /repo worktree remove --force $wt
