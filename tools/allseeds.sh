#!/bin/bash
# run every seeded breakage against its property check; prints one line per seed
cd /verif
for d in seeded/*/; do
  [ -f $d/meta.json ] || continue
  pid=$(python3 -c "import json;print(json.load(open('$d/meta.json'))['property'])")
  out=$(tools/seedtest.sh $d/patch.diff $pid 2>&1)
  rc=$(echo "$out" | grep -o "rc=[0-9]*" | tail -1)
  first=$(echo "$out" | grep -E "VIOLATION|UNDECIDED|PATCH" | head -1 | cut -c1-170)
  echo "$(basename $d) $pid $rc  $first"
done
