#!/usr/bin/env python3
"""Write `pin=<hash>` into every declared edit (OUTLINE/HAVOC/CLOSURE/REPLACE/ITERNAME) whose pattern has `$$` wildcards:
the hash of the tokens the edit replaces on the CURRENT tree.  Run after reviewing that each such edit's assumed contract
describes the replaced text.  usage: tools/setpins.py [unit ...]"""
import os, re, sys
os.environ["VERIF_SETPINS"] = "1"
sys.path.insert(0, "/verif")
from vxlib import gen
C = "/verif/contracts"
units = sys.argv[1:] or [f[:-6] for f in sorted(os.listdir(C)) if f.endswith(".vx.rs")]
todo = {}
for u in units:
    gen.clear_cache()
    try:
        unit = gen.expand(os.path.join(C, u + ".vx.rs"), os.environ.get("VERIF_REPO", "/repo"))
    except gen.GenError as e:
        print(u, "GEN ERROR", e)
        continue
    for q in unit.assume_pins:
        if q["pin"]:
            globals().setdefault("assume", {})[q["key"]] = q["pin"]
    for p in unit.pins:
        f, n = unit.tmap[p["tline"] - 1]
        todo.setdefault(f, {})[n] = p["pin"]
    print(u, len(unit.pins), "wildcard edits")
# ASSUME pins (bodies of /repo functions whose contract is assumed)
import json
ap_path = os.path.join(C, "assume_pins.json")
try:
    ap = json.load(open(ap_path))
except (OSError, ValueError):
    ap = {}
for k, v in list(globals().get("assume", {}).items()):
    ap[k] = v
json.dump(dict(sorted(ap.items())), open(ap_path, "w"), indent=1)
print("assume pins:", len(ap))
for f, d in todo.items():
    path = os.path.join(C, f)
    lines = open(path).read().split("\n")
    for n, pin in d.items():
        l = lines[n - 1]
        assert l.strip().startswith("//@@ "), (f, n, l)
        l = re.sub(r"\s+pin=[0-9a-f]+", "", l.rstrip())
        lines[n - 1] = l + " pin=" + pin
    open(path, "w").write("\n".join(lines))
    print("  pinned", len(d), "edits in", f)
