#!/bin/bash
# usage: tools/mut.sh <file-rel> <sed-expr> <PID>...   — run checks against a scratch copy with one edit
set -e
d=$(mktemp -d /tmp/mutXXXX)
mkdir -p $d
rsync -a --exclude target --exclude .git /repo/ $d/
sed -i "$2" $d/$1
if diff -q /repo/$1 $d/$1 >/dev/null; then echo "MUTATION DID NOT APPLY"; rm -rf $d; exit 3; fi
shift; shift
for p in "$@"; do VERIF_EVIDENCE_DIR=/verif/build/evidence-scratch VERIF_REPO=$d /verif/vx check $p | grep -v "^UNDECIDED: .*rest on" ; echo "  -> $p rc=${PIPESTATUS[0]}"; done
rm -rf $d
