#!/bin/bash
# Regression over all seeds and all behaviour-preserving refactorings on a SCRATCH copy of /repo (so it can run while /repo and /verif are
# in use): own copy, own build dir, own evidence dir.  usage: tools/regress.sh seeds|harmless [regex]
set -u
what=$1; only="${2:-}"
R=/tmp/regress-repo-$$; B=/tmp/regress-build-$$; E=/tmp/regress-ev-$$; V=/tmp/regress-verif-$$
rm -rf $R $B $E $V; mkdir -p $B $E
rsync -a --exclude target --exclude .git /repo/ $R/
# a snapshot of the machinery too, so /verif can be edited while this runs
rsync -a --exclude build --exclude evidence --exclude .git --exclude 'replay/target' /verif/ $V/
( cd $R && git init -q . && git add -A >/dev/null 2>&1 && git -c user.email=x@x -c user.name=x commit -qm base >/dev/null 2>&1 )
export VERIF_REPO=$R VERIF_BUILD=$B VERIF_EVIDENCE_DIR=$E
cd $V
declare -A props=( [r1]="C18 C14 C03" [r2]="C01 C11 C16 C03" [r3]="C01 C11 C16 C03" [r4]="C19 C06 C20 C03" [r5]="C18 C14 C03" [r6]="C18 C19 C03" [r7]="C01 C16 C11 C03" [r8]="C09 C08 C07 C05" [r9]="C19 C13 C01 C11 C03" )
if [ "$what" = seeds ]; then
  for d in seeded/*/; do
    [ -f $d/meta.json ] || continue
    b=$(basename $d); if [ -n "$only" ] && [[ ! "$b" =~ $only ]]; then continue; fi
    pid=$(python3 -c "import json;print(json.load(open('$d/meta.json'))['property'])")
    ( cd $R && git checkout -q -- . && git apply $V/$d/patch.diff ) || { echo "$b $pid PATCH-DOES-NOT-APPLY"; continue; }
    out=$(./vx check $pid 2>&1); rc=$?
    first=$(echo "$out" | grep -E "VIOLATION|UNDECIDED" | head -1 | cut -c1-200)
    echo "$b $pid rc=$rc  $first"
  done
else
  for f in seeded/harmless/*.diff; do
    b=$(basename $f .diff); a=${b%%_*}
    if [ -n "$only" ] && [[ ! "$b" =~ $only ]]; then continue; fi
    ( cd $R && git checkout -q -- . && git apply --check $V/$f 2>/dev/null && git apply $V/$f ) || { echo "$b: PATCH-DOES-NOT-APPLY"; continue; }
    res=""
    for p in ${props[$a]}; do
      out=$(./vx check $p 2>&1); rc=$?
      res="$res $p=$rc"
      if [ $rc -ne 0 ]; then echo "$out" | grep -E "VIOLATION|UNDECIDED" | cut -c1-220 | sed "s/^/    [$b $p] /"; fi
    done
    echo "$b:$res"
  done
fi
rm -rf $R $B $E $V
