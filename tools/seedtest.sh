#!/bin/bash
# usage: tools/seedtest.sh <patch.diff> <PID>...  — apply a seeded patch to /repo, run checks, undo
set -u
patch=$(realpath $1); shift
cd /repo || exit 3
if ! git diff --quiet; then echo "/repo has uncommitted changes"; exit 3; fi
patch=$(realpath "$patch"); cd /repo; if ! git apply --check "$patch" 2>/dev/null; then echo "PATCH DOES NOT APPLY"; exit 3; fi
git apply "$patch"
cd /verif
for p in "$@"; do VERIF_EVIDENCE_DIR=/verif/build/evidence-scratch ./vx check $p | grep -E "VIOLATION|UNDECIDED|KNOWN|tier=" | cut -c1-300; echo "  -> $p rc=${PIPESTATUS[0]}"; done
git -C /repo checkout -- .
