#!/bin/bash
# run the property checks against every behaviour-preserving refactoring in seeded/harmless: expect exit 0
cd /verif
declare -A props=( [r1]="C18 C14 C03" [r2]="C01 C11 C16 C03" [r3]="C01 C11 C16 C03" [r4]="C19 C06 C20 C03" [r5]="C18 C14 C03" [r6]="C18 C19 C03" [r7]="C01 C16 C11 C03" [r8]="C09 C08 C07 C05" [r9]="C19 C13 C01 C11 C03" [r10]="C05 C06 C03" )
only="${1:-}"
for f in seeded/harmless/*.diff; do
  b=$(basename $f .diff); a=${b%%_*}
  if [ -n "$only" ] && [[ ! "$b" =~ $only ]]; then continue; fi
  cd /repo; if ! git apply --check /verif/$f 2>/dev/null; then echo "$b: PATCH-DOES-NOT-APPLY"; cd /verif; continue; fi
  git apply /verif/$f; cd /verif
  res=""
  for p in ${props[$a]}; do
    out=$(VERIF_EVIDENCE_DIR=/verif/build/evidence-scratch ./vx check $p 2>&1); rc=$?
    res="$res $p=$rc"
    if [ $rc -ne 0 ]; then echo "$out" | grep -E "VIOLATION|UNDECIDED" | cut -c1-260 | sed "s/^/    [$b $p] /"; fi
  done
  echo "$b:$res   ($(head -c 100 seeded/harmless/$b.txt | tr '\n' ' '))"
  git -C /repo checkout -- .
done
